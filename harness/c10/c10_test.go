// C10 — blocked callers are woken when capacity frees (no lost wake-up or hand-off).
// Bounded-progress form decided at quiescence inside a synctest bubble: after a release, once every goroutine
// is durably blocked and virtual time has not moved, it is never the case that capacity is free while a
// caller is still blocked.  Releases are injected at the schedule points of DESIGN section 5.
package c10

import (
	"context"
	"fmt"
	"math/rand/v2"
	"os"
	"runtime"
	"strings"
	"sync"
	"sync/atomic"
	"testing"
	"testing/synctest"
	"time"

	"github.com/platinummonkey/go-concurrency-limits/core"
	"github.com/platinummonkey/go-concurrency-limits/limit"
	"github.com/platinummonkey/go-concurrency-limits/limiter"
	"github.com/platinummonkey/go-concurrency-limits/strategy"

	"verifharness/internal/blk"
	"verifharness/internal/inject"
	"verifharness/internal/rt"
)

func TestMain(m *testing.M) { rt.Main(m) }

type scenario struct {
	Kind    blk.Kind `json:"kind"`
	Cap     int      `json:"capacity"`
	Waiters int      `json:"waiters"`
	Outcome string   `json:"outcome"`
	Point   string   `json:"release_point"`
	Yields  int      `json:"pause_yields"`
}

var outcomes = []string{"success", "ignore", "dropped"}

func kinds() []blk.Kind {
	h := time.Hour
	return []blk.Kind{
		{Family: "blocking", Timeout: 0},
		{Family: "blocking", Timeout: h},
		{Family: "deadline", Timeout: h},
		{Family: "queue", Ordering: "fifo", Evict: true, Backlog: 10, Timeout: h},
		{Family: "queue", Ordering: "fifo", Evict: false, Backlog: 10, Timeout: h},
		{Family: "queue", Ordering: "lifo", Evict: true, Backlog: 10, Timeout: h},
		{Family: "queue", Ordering: "lifo", Evict: false, Backlog: 10, Timeout: h},
		// no backlog time-out at all: a queued caller leaves only by being served (or, with eviction, cancelled)
		{Family: "queue", Ordering: "fifo", Evict: false, Backlog: 10, Timeout: -1},
		{Family: "queue", Ordering: "lifo", Evict: true, Backlog: 10, Timeout: -1},
	}
}

func points(k blk.Kind) []string {
	var p []string
	p = []string{"before-arrival", "after-failed-attempt-1", "after-failed-attempt-2", "asleep", "loser-retry", "inner-released-then-pause", "parallel-releases", "second-release-at-refused-handoff", "slow-inner-release"}
	if k.Family != "queue" {
		p = append(p, "helper-before-lock", "winner-cancelled-at-wakeup")
	}
	if k.Family == "queue" {
		p = append(p, "queue.before_push", "queue.after_push")
		p = append(p, "release-after-a-rejection-at-the-full-backlog", "second-release-inside-the-strategy", "refused-handoff-with-a-cancelled-head")
		if k.Evict {
			p = append(p, "handoff-vs-cancel", "cancel-right-after-the-handoff")
		} else if k.Timeout > 0 {
			p = append(p, "handoff-vs-timeout", "next-in-line-cancelled-but-not-evicted")
		}
	}
	return p
}

func grid() []scenario {
	var g []scenario
	for _, k := range kinds() {
		for _, p := range points(k) {
			for cap := 1; cap <= 2; cap++ {
				for nw := 1; nw <= 3; nw++ {
					if ((p == "loser-retry" || p == "parallel-releases" || p == "second-release-at-refused-handoff" || p == "second-release-inside-the-strategy") && (cap < 2 || nw < 2)) || (p == "refused-handoff-with-a-cancelled-head" && (nw < 2 || k.Evict)) || ((strings.HasPrefix(p, "handoff") || p == "cancel-right-after-the-handoff" || strings.HasPrefix(p, "next-in-line") || p == "winner-cancelled-at-wakeup") && nw < 2) {
						continue
					}
					for _, o := range outcomes {
						g = append(g, scenario{Kind: k, Cap: cap, Waiters: nw, Outcome: o, Point: p})
					}
				}
			}
		}
	}
	return g
}

type outcomeT struct {
	snaps     []blk.Snapshot
	anonymous int64 // delegate attempts made with a context that carries no caller (never the case for a caller's own context)
	holders   []int // per snapshot: tokens the harness knows to be held (not yet completed holders + granted, uncompleted waiters)
	final     blk.Final
	reached   bool
	trace     []string
}

func run(t *testing.T, sc scenario, r *rand.Rand) outcomeT {
	var out outcomeT
	rt.Scenario(fmt.Sprintf("C10/%s/release@%s", sc.Kind, sc.Point), -1, sc)
	defer rt.ScenarioDone()
	precise := r.IntN(2) == 0
	target := r.IntN(sc.Waiters)
	if sc.Point == "handoff-vs-timeout" {
		target = 0
	}
	bubble(t, func(t *testing.T) {
		k := sc.Kind
		k.Precise = precise
		if sc.Point == "second-release-inside-the-strategy" {
			k.Precise = false
		}
		if sc.Point == "release-after-a-rejection-at-the-full-backlog" {
			k.Backlog = sc.Waiters
		}
		w := blk.NewWorld(k, sc.Cap)
		var mu sync.Mutex
		held := w.Hold(sc.Cap)
		pop := func() core.Listener {
			mu.Lock()
			defer mu.Unlock()
			if len(held) == 0 {
				return nil
			}
			l := held[0]
			held = held[1:]
			return l
		}
		releaseNext := func() bool {
			l := pop()
			if l == nil {
				return false
			}
			w.Release(l, sc.Outcome)
			return true
		}
		var reached, armed atomic.Bool
		var anonymous atomic.Int64
		selfFails := map[int]int{}
		var handoffTarget atomic.Int64
		handoffTarget.Store(-1)
		w.Gate.Hook = func(e inject.GateEvent) {
			wt := w.WaiterByGoID(e.GoID)
			if e.Caller < 0 {
				// every caller of this world carries an id in its context; an attempt whose context carries none was made on
				// behalf of a queued caller with a context that is not that caller's (partitioned delegates decide by it)
				anonymous.Add(1)
			}
			if wt == nil {
				// an attempt on behalf of a waiter made by another goroutine = hand-off attempt of unblock
				if e.OK && e.Caller >= 0 && e.Caller < 900 {
					handoffTarget.Store(int64(e.Caller))
				}
				if sc.Point == "second-release-at-refused-handoff" && !e.OK && armed.Load() && reached.CompareAndSwap(false, true) {
					// a release is inside its hand-off and the delegate has just said no (an implementation that serves several
					// waiters per release ends that way): the next holder completes right now, in another goroutine
					fin := w.Actor.Do(func() { releaseNext() }, sc.Yields)
					w.Tracef("hand-off attempt refused; second release finished within the pause: %v", fin)
				}
				if sc.Point == "parallel-releases" && armed.Load() {
					// a slow delegate: the hand-off attempts of holders completing at the same moment overlap if the limiter lets them
					for i := 0; i < sc.Yields/4; i++ {
						runtime.Gosched()
					}
				}
				return
			}
			if e.OK {
				if sc.Point == "winner-cancelled-at-wakeup" && armed.Load() && reached.CompareAndSwap(false, true) {
					// the woken caller that won the unit: its context ends at this very moment; the others have time to fail
					// their own attempt and go back to sleep
					w.CancelWaiter(wt)
					for i := 0; i < sc.Yields/2; i++ {
						runtime.Gosched()
					}
				}
				return
			}
			mu.Lock()
			selfFails[wt.ID]++
			n := selfFails[wt.ID]
			mu.Unlock()
			switch sc.Point {
			case "after-failed-attempt-1", "after-failed-attempt-2":
				want := 1
				if sc.Point == "after-failed-attempt-2" {
					want = 2
				}
				if wt.ID == target && n == want && reached.CompareAndSwap(false, true) {
					fin := w.Actor.Do(func() { releaseNext() }, sc.Yields)
					w.Tracef("waiter %d paused after its failed attempt #%d; release finished within the pause: %v", wt.ID, n, fin)
				}
			case "inner-released-then-pause":
				if wt.ID == target && n == 1 && reached.CompareAndSwap(false, true) {
					w.Actor.Go(func() { releaseNext() })
				}
			case "loser-retry":
				if armed.Load() && reached.CompareAndSwap(false, true) {
					fin := w.Actor.Do(func() { releaseNext() }, sc.Yields)
					w.Tracef("woken loser %d failed its retry; second release finished within the pause: %v", wt.ID, fin)
				}
			}
		}
		if sc.Point == "second-release-inside-the-strategy" {
			// the hand-off of a release is inside the (simple) strategy, between its check and its add, when the next holder
			// completes in another goroutine
			strategy.SetVerifHook(func(name string) {
				if name == "simple.between_check_and_add" && armed.Load() && reached.CompareAndSwap(false, true) {
					fin := w.Actor.Do(func() { releaseNext() }, sc.Yields)
					w.Tracef("hand-off inside the strategy; second release finished within the pause: %v", fin)
				}
			})
			defer strategy.SetVerifHook(nil)
		}
		if sc.Point == "slow-inner-release" {
			// the delegate's listener takes its time before the unit is really back
			w.Gate.BeforeInnerRelease = func(string) {
				for i := 0; i < sc.Yields/4; i++ {
					runtime.Gosched()
				}
			}
		}
		if sc.Point == "helper-before-lock" {
			// the blocking / deadline limiters register for the wake-up through a helper goroutine: the holder completes while
			// the targeted caller's helper is about to take the condition's lock
			w.OnPoint("blocking.helper_before_lock", func(*blk.Waiter) {
				if armed.Load() && reached.CompareAndSwap(false, true) {
					fin := w.Actor.Do(func() { releaseNext() }, sc.Yields)
					w.Tracef("subscribe helper paused before taking the lock; release finished within the pause: %v", fin)
				}
			})
			armed.Store(true)
		}
		if sc.Point == "inner-released-then-pause" {
			w.Gate.AfterInnerRelease = func(string) {
				for i := 0; i < sc.Yields/4; i++ {
					runtime.Gosched()
				}
			}
		}
		for _, pn := range []string{"queue.before_push", "queue.after_push"} {
			pn := pn
			if sc.Point == pn {
				w.OnPoint(pn, func(wt *blk.Waiter) {
					if wt != nil && wt.ID == target && reached.CompareAndSwap(false, true) {
						fin := w.Actor.Do(func() { releaseNext() }, sc.Yields)
						w.Tracef("waiter %d paused at %s; release finished within the pause: %v", wt.ID, pn, fin)
					}
				})
			}
		}
		if sc.Point == "handoff-vs-cancel" {
			w.OnPoint("queue.before_handoff", func(*blk.Waiter) {
				id := handoffTarget.Load()
				if id >= 0 && reached.CompareAndSwap(false, true) {
					w.CancelWaiter(w.Waiters[id])
					for i := 0; i < sc.Yields/4; i++ {
						runtime.Gosched()
					}
				}
			})
		}
		snap := func(tag string) {
			w.Quiesce()
			out.snaps = append(out.snaps, w.Snap(tag))
			mu.Lock()
			h := len(held)
			mu.Unlock()
			for _, wt := range w.Waiters {
				if wt.Done() && wt.OK && wt.L != nil && !wt.Completed {
					h++
				}
			}
			out.holders = append(out.holders, h)
		}
		if sc.Point == "before-arrival" {
			releaseNext()
			reached.Store(true)
		}
		for i := 0; i < sc.Waiters; i++ {
			w.Spawn()
			if sc.Point == "asleep" || sc.Point == "loser-retry" || sc.Point == "parallel-releases" || sc.Point == "second-release-at-refused-handoff" || sc.Point == "slow-inner-release" || sc.Point == "winner-cancelled-at-wakeup" || sc.Point == "release-after-a-rejection-at-the-full-backlog" || sc.Point == "second-release-inside-the-strategy" || sc.Point == "refused-handoff-with-a-cancelled-head" || sc.Point == "cancel-right-after-the-handoff" || strings.HasPrefix(sc.Point, "handoff") || strings.HasPrefix(sc.Point, "next-in-line") {
				w.Quiesce() // arrival order is a fact
				if sc.Point == "handoff-vs-timeout" {
					time.Sleep(time.Millisecond)
				}
			}
		}
		snap("after-arrivals")
		switch sc.Point {
		case "asleep":
			reached.Store(true)
			releaseNext()
			snap("after-release-while-asleep")
		case "loser-retry":
			armed.Store(true)
			releaseNext()
			snap("after-release-with-loser-retry")
		case "winner-cancelled-at-wakeup":
			armed.Store(true)
			releaseNext()
			snap("after-release-whose-winner-was-cancelled-at-its-wake-up")
			armed.Store(false)
		case "release-after-a-rejection-at-the-full-backlog":
			// the backlog holds exactly its maximum (set to the number of waiters): one more caller is turned away, then a
			// holder completes
			extra := w.Spawn()
			w.Quiesce()
			w.Tracef("extra caller at the full backlog: returned=%v ok=%v", extra.Done(), extra.OK)
			reached.Store(true)
			releaseNext()
			snap("after-release-following-a-rejection-at-the-full-backlog")
		case "second-release-inside-the-strategy":
			armed.Store(true)
			releaseNext()
			snap("after-two-releases-one-landing-inside-the-strategy")
			armed.Store(false)
		case "refused-handoff-with-a-cancelled-head":
			// eviction off: the next-in-line caller is cancelled but stays queued; a release whose hand-off the delegate
			// refuses (a newcomer took the unit first) must leave the backlog as it is; the next release serves somebody
			nl := w.Waiters[0]
			if sc.Kind.Ordering == "lifo" {
				nl = w.Waiters[len(w.Waiters)-1]
			}
			w.CancelWaiter(nl)
			w.Quiesce()
			w.Gate.RefuseNext.Store(true)
			reached.Store(true)
			releaseNext() // the hand-off is refused: the unit lies free at the delegate, nobody was told (by design)
			w.Quiesce()
			w.Gate.RefuseNext.Store(false)
			// the newcomer that was faster: takes the free unit on the fast path and completes it again
			if nc, ok := w.Lim.Acquire(inject.WithCaller(context.Background(), 1500)); ok {
				w.Release(nc, sc.Outcome)
			}
			snap("after-the-release-following-a-refused-hand-off")
		case "slow-inner-release":
			reached.Store(true)
			releaseNext()
			snap("after-release-through-a-slow-delegate-listener")
		case "second-release-at-refused-handoff":
			armed.Store(true)
			releaseNext()
			snap("after-release-whose-hand-off-loop-met-a-refusal")
			armed.Store(false)
		case "parallel-releases":
			// every holder completes at the same moment, each from its own goroutine
			armed.Store(true)
			reached.Store(true)
			for i := 0; i < sc.Cap; i++ {
				go releaseNext()
			}
			snap("after-all-holders-completed-in-parallel")
			armed.Store(false)
		case "handoff-vs-cancel":
			releaseNext()
			snap("after-release-with-handoff-to-cancelled-waiter")
		case "cancel-right-after-the-handoff":
			// the next-in-line caller's context ends when the token has just been put into its hands, before it ran: it
			// may keep the token or give it up - a token it gives up goes to the caller behind it
			nl := w.Waiters[0]
			if sc.Kind.Ordering == "lifo" {
				nl = w.Waiters[len(w.Waiters)-1]
			}
			releaseNext()
			w.CancelWaiter(nl)
			reached.Store(true)
			snap("after-release-and-cancellation-of-the-caller-just-served")
		case "next-in-line-cancelled-but-not-evicted":
			// without eviction a cancelled caller stays queued; the release must still serve somebody
			nl := w.Waiters[0]
			if sc.Kind.Ordering == "lifo" {
				nl = w.Waiters[len(w.Waiters)-1]
			}
			w.CancelWaiter(nl)
			w.Quiesce()
			reached.Store(true)
			releaseNext()
			snap("after-release-with-cancelled-caller-next-in-line")
		case "handoff-vs-timeout":
			// release at exactly the instant the first waiter's backlog timeout fires
			time.Sleep(w.Waiters[0].Arrived + sc.Kind.Timeout - w.Now())
			reached.Store(true)
			releaseNext()
			snap("after-release-at-timeout-instant")
		}
		// drain: release what is left one by one, then complete what waiters were granted, one by one
		for releaseNext() {
			snap("after-drain-release")
		}
		for round := 0; round < 8; round++ {
			progressed := false
			for _, wt := range w.Waiters {
				if wt.Done() && wt.OK && wt.L != nil && !wt.Completed {
					wt.Completed = true
					w.Release(wt.L, sc.Outcome)
					progressed = true
					snap("after-completion-of-granted-waiter")
				}
			}
			if !progressed {
				break
			}
		}
		out.reached = reached.Load()
		out.anonymous = anonymous.Load()
		w.Gate.Hook = nil
		out.final = w.Teardown(nil)
		out.trace = w.Trace()
	})
	return out
}

func judge(idx int64, sc scenario, o outcomeT) {
	rt.Count("scenarios", 1)
	if o.anonymous > 0 {
		rt.Violation(fmt.Sprintf("C10/%s/hand-off-attempted-with-a-context-that-is-not-the-queued-callers", sc.Kind), idx, rt.J{"scenario": sc, "attempts": o.anonymous, "trace": o.trace,
			"meaning": "the delegate decides by the caller's context (partitions): a hand-off evaluated for another context is evaluated for another caller"})
		return
	}
	rt.Count("quiescent_snapshots", int64(len(o.snaps)))
	if o.reached {
		rt.Count("scenarios_reaching_their_schedule_point", 1)
		rt.Count("reached/"+sc.Point, 1)
	}
	for i, s := range o.snaps {
		if len(s.Blocked) > 0 {
			rt.Count("snapshots_with_blocked_callers", 1)
		}
		if i < len(o.holders) && s.Busy > o.holders[i] && len(s.Blocked) > 0 {
			rt.Violation(fmt.Sprintf("C10/%s/release@%s/completed-token-neither-freed-nor-handed-over", sc.Kind, sc.Point), idx, rt.J{"scenario": sc, "snapshot": s, "tokens_held_by_anyone": o.holders[i],
				"meaning": "a holder completed, yet at quiescence the slot is still counted busy, nobody holds it and callers are still blocked", "trace": o.trace})
			return
		}
		if s.Free > 0 && len(s.Blocked) > 0 {
			tr := o.trace
			rt.Violation(fmt.Sprintf("C10/%s/release@%s", sc.Kind, sc.Point), idx, rt.J{"scenario": sc, "snapshot": s,
				"meaning": "capacity is free while callers are still blocked, every goroutine is durably blocked and virtual time has not advanced", "trace": tr})
			return
		}
	}
	if len(o.final.Unreturned) > 0 {
		rt.Violation(fmt.Sprintf("C10/%s/caller-never-returned", sc.Kind), idx, rt.J{"scenario": sc, "final": o.final, "trace": o.trace})
		return
	}
	granted := 0
	for _, s := range o.snaps {
		if len(s.Granted) > granted {
			granted = len(s.Granted)
		}
	}
	if o.reached && granted > 0 {
		rt.Distinct(fmt.Sprintf("%+v", sc))
	}
	if os.Getenv("VERIF_DEBUG_POINT") == sc.Point {
		fmt.Fprintf(os.Stderr, "DEBUG %+v\n", sc)
		for _, l := range o.trace {
			fmt.Fprintln(os.Stderr, "   ", l)
		}
	}
	rt.DistinctIn("interleavings_observed(kind,point,event trace)", fmt.Sprintf("%v|%s|%d|%d|%v", sc.Kind, sc.Point, sc.Cap, sc.Waiters, o.trace))
	if rt.WantSample() && idx%57 == 5 {
		rt.Sample(rt.J{"scenario": sc, "trace": o.trace, "snapshots": len(o.snaps)})
	}
}

// stress: real time, zero hold time, no bound that could paper over a lost wake-up (timeout 0 / 1h).  A run that stops
// making progress for two consecutive watchdog periods with every worker inside Acquire and capacity free is a stable
// stuck state (violation); any other overrun is inconclusive.
func stress(idx int64, r *rand.Rand) {
	capacity := 1 + r.IntN(2)
	ks := kinds()
	k := ks[r.IntN(len(ks))]
	nG := 4 + r.IntN(13)
	if k.Family == "queue" {
		k.Backlog = nG + 2
	}
	var st interface {
		core.Strategy
		GetBusyCount() int
	}
	if r.IntN(2) == 0 {
		st = strategy.NewSimpleStrategy(capacity)
	} else {
		st = strategy.NewPreciseStrategy(capacity)
	}
	dl, err := limiter.NewDefaultLimiter(limit.NewFixedLimit("c10", capacity, nil), 1e9, 1e9, 1e5, 100, st, limit.NoopLimitLogger{}, core.EmptyMetricRegistryInstance)
	if err != nil {
		panic(err)
	}
	var lim core.Limiter
	switch k.Family {
	case "blocking":
		lim = limiter.NewBlockingLimiter(dl, k.Timeout, nil)
	case "deadline":
		lim = limiter.NewDeadlineLimiter(dl, time.Now().Add(k.Timeout), nil)
	default:
		lim = limiter.NewQueueBlockingLimiterFromConfig(dl, limiter.QueueLimiterConfig{Ordering: limiter.QueueOrdering(k.Ordering), MaxBacklogSize: k.Backlog,
			MaxBacklogTimeout: k.Timeout, BacklogEvictDoneCtx: k.Evict})
	}
	iters := 200
	var progress, refused atomic.Int64
	var wg sync.WaitGroup
	stopReaders := make(chan struct{})
	defer close(stopReaders)
	if r.IntN(2) == 0 {
		// metrics readers: goroutines that keep asking the delegate for its estimate and its description (what a gauge
		// poller or a log line does) - reading never makes a release or a retry find the delegate "busy"
		for i := 0; i < 2; i++ {
			go func(i int) {
				for {
					select {
					case <-stopReaders:
						return
					default:
					}
					if i == 0 {
						_ = dl.EstimatedLimit()
					} else {
						_ = len(dl.String())
					}
				}
			}(i)
		}
		rt.Count("stress_runs_with_readers_on_the_delegate", 1)
	}
	for g := 0; g < nG; g++ {
		wg.Add(1)
		go func(g int) {
			defer wg.Done()
			for i := 0; i < iters; i++ {
				l, ok := lim.Acquire(context.Background())
				if !ok || l == nil {
					refused.Add(1)
					continue
				}
				if (g+i)%4 == 0 {
					runtime.Gosched()
				}
				switch (g + i) % 3 {
				case 0:
					l.OnSuccess()
				case 1:
					l.OnIgnore()
				default:
					l.OnDropped()
				}
				progress.Add(1)
			}
		}(g)
	}
	done := make(chan struct{})
	go func() { wg.Wait(); close(done) }()
	last, stable := int64(-1), 0
	for {
		select {
		case <-done:
			rt.Count("stress_runs", 1)
			rt.Count("stress_grants", progress.Load())
			if refused.Load() > 0 {
				rt.Violation(fmt.Sprintf("C10/%s/stress/caller-refused-although-nothing-bounds-the-wait", k), idx, rt.J{"kind": k, "capacity": capacity, "goroutines": nG, "refused": refused.Load()})
			}
			return
		case <-time.After(3 * time.Second):
			cur := progress.Load()
			if cur == last {
				stable++
			} else {
				stable, last = 0, cur
			}
			if stable >= 2 {
				buf := make([]byte, 1<<20)
				dump := string(buf[:runtime.Stack(buf, true)])
				workersInside := false
				for _, b := range strings.Split(dump, "\n\n") {
					if strings.Contains(b, "c10.stress.func") && (strings.Contains(b, ").Acquire(") || strings.Contains(b, ").OnSuccess(") || strings.Contains(b, ").OnIgnore(") || strings.Contains(b, ").OnDropped(")) {
						workersInside = true
					}
				}
				if st.GetBusyCount() < capacity && workersInside {
					rt.Violation(fmt.Sprintf("C10/%s/stress/callers-stuck-with-capacity-free", k), idx, rt.J{"kind": k, "capacity": capacity, "goroutines": nG,
						"busy": st.GetBusyCount(), "grants_so_far": cur, "stacks": dump[:min(len(dump), 6000)]})
					rt.Flush()
					os.Exit(0)
				}
				rt.Inconclusive("C10 stress run stopped progressing without a recognisable stuck state")
				return
			}
		}
	}
}

func TestCheck(t *testing.T) {
	g := grid()
	rt.Cases(len(g)*3, len(g)*1500, func(idx int64) {
		r := rt.CaseRand(10, idx)
		rt.Case()
		if idx%50 == 49 {
			stress(idx, r)
			rt.Distinct(fmt.Sprintf("stress|%d", idx))
			return
		}
		sc := g[int(idx)%len(g)]
		sc.Yields = []int{2000, 20000, 200}[r.IntN(3)]
		judge(idx, sc, run(t, sc, r))
	})
}

// bubble runs f in a synctest bubble; a bubble that cannot end (goroutines left blocked) is recorded, not fatal.
func bubble(t *testing.T, f func(*testing.T)) {
	rt.Bubble(func() { synctest.Test(t, f) }, "C10")
}
