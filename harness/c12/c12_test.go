// C12 — the backlog is bounded and holds exactly the callers still blocked.
package c12

import (
	"context"
	"encoding/json"
	"fmt"
	"math/rand/v2"
	"runtime"
	"sync"
	"sync/atomic"
	"testing"
	"testing/synctest"
	"time"

	"github.com/platinummonkey/go-concurrency-limits/core"
	"github.com/platinummonkey/go-concurrency-limits/limit"
	"github.com/platinummonkey/go-concurrency-limits/limiter"
	"github.com/platinummonkey/go-concurrency-limits/patterns/pool"
	"github.com/platinummonkey/go-concurrency-limits/strategy"

	"verifharness/internal/blk"
	"verifharness/internal/inject"
	"verifharness/internal/rt"
)

func TestMain(m *testing.M) { rt.Main(m) }

var returnChecks atomic.Int64

func scenario(t *testing.T, idx int64, r *rand.Rand) {
	T := []time.Duration{50 * time.Millisecond, time.Second, time.Hour, -1}[r.IntN(4)] // -1: backlog time-out disabled
	k := blk.Kind{Family: "queue", Ordering: []string{"fifo", "lifo", ""}[r.IntN(3)], Evict: r.IntN(2) == 0, Backlog: 1 + r.IntN(4), Timeout: T, Precise: r.IntN(2) == 0}
	capacity := 1 + r.IntN(2)
	yields := []int{0, 50, 2000}[r.IntN(3)]
	var trace []string
	var ops []string
	deadArrivals := 0
	checks, fullRefusals, bursts, overlaps, refusedHandoffs := 0, 0, 0, 0, 0
	bad := false
	bubble(t, func(t *testing.T) {
		w := blk.NewWorld(k, capacity)
		held := w.Hold(capacity)
		if yields > 0 { // widen the check->push and push->select windows
			spin := func(*blk.Waiter) {
				for i := 0; i < yields; i++ {
					runtime.Gosched()
				}
			}
			w.OnPoint("queue.before_push", spin)
			w.OnPoint("queue.after_push", spin)
			w.OnPoint("queue.before_handoff", spin)
		}
		fail := func(sig string, extra rt.J) {
			if bad {
				return
			}
			bad = true
			extra["kind"], extra["capacity"], extra["ops"], extra["trace"] = k, capacity, ops, w.Trace()
			rt.Violation(fmt.Sprintf("C12/%s/%s", k, sig), idx, extra)
		}
		// at the moment a caller's Acquire returns it must have left the backlog: the backlog can hold at most the callers
		// that are inside Acquire at that instant.  returned-so-far is read first and entered-so-far last, so
		// (entered - returned) is an upper bound of the callers inside at the instant the length is read.
		var stale atomic.Pointer[rt.J]
		w.OnReturn = func(wt *blk.Waiter) {
			r0 := w.Returned.Load()
			n := w.Queue.VerifBacklogLen()
			e2 := w.Entered.Load()
			returnChecks.Add(1)
			if int64(n) > e2-r0 && stale.Load() == nil {
				d := rt.J{"waiter": wt.ID, "ok": wt.OK, "backlog_len_when_its_acquire_returned": n, "callers_inside_acquire_at_most": e2 - r0}
				stale.Store(&d)
			}
		}
		check := func(tag string) {
			w.Quiesce()
			s := w.Snap(tag)
			checks++
			if d := stale.Load(); d != nil {
				fail("caller-still-in-backlog-when-its-acquire-returned", *d)
			}
			inside := len(s.Blocked) + len(s.GivingUp) // callers whose Acquire has not returned
			if s.QueueGauge != s.BacklogLen {
				fail("queue-size-gauge-differs-from-backlog", rt.J{"snapshot": s})
			}
			if s.QueueGauge != inside {
				fail("queue-size-differs-from-blocked-callers", rt.J{"snapshot": s, "callers_inside_acquire": inside})
			}
			if inside > k.Backlog {
				fail("more-callers-blocked-than-the-backlog-bound", rt.J{"snapshot": s, "bound": k.Backlog})
			}
			// whoever was refused although neither cancelled nor timed out was refused at a full backlog: it must have
			// returned at the very instant it arrived
			for _, wt := range w.Waiters {
				if wt.Done() && !wt.OK && !wt.Cancelled.Load() && wt.Returned < wt.Arrived+k.Timeout {
					if wt.Returned != wt.Arrived {
						fail("refusal-at-full-backlog-not-immediate", rt.J{"waiter": wt.ID, "arrived": wt.Arrived.String(), "returned": wt.Returned.String()})
					}
				}
			}
		}
		check("start")
		nops := 8 + r.IntN(25)
		for i := 0; i < nops && !bad; i++ {
			switch x := r.IntN(14); {
			case x < 4: // single arrival
				time.Sleep(time.Duration(1+r.IntN(3)) * time.Millisecond)
				w.Quiesce()
				before := w.Snap("pre")
				var wt *blk.Waiter
				if r.IntN(4) == 0 { // a caller whose context is already done when it arrives
					wt = w.SpawnWith(func(ctx context.Context, cancel context.CancelFunc) { cancel() })
					wt.Cancelled.Store(true)
					ops = append(ops, fmt.Sprintf("arrive-with-done-context(%d)", wt.ID))
					deadArrivals++
				} else {
					wt = w.Spawn()
					ops = append(ops, fmt.Sprintf("arrive(%d)", wt.ID))
				}
				check("after-arrival")
				if before.Free == 0 && len(before.Blocked)+len(before.GivingUp) >= k.Backlog {
					fullRefusals++
					if !wt.Done() || wt.OK || wt.Returned != wt.Arrived {
						fail("arrival-at-full-backlog-not-refused-immediately", rt.J{"waiter": wt.ID, "done": wt.Done(), "ok": wt.OK, "arrived": wt.Arrived.String(), "returned": wt.Returned.String()})
					}
				}
			case x < 6: // simultaneous burst
				time.Sleep(time.Duration(1+r.IntN(3)) * time.Millisecond)
				n := 2 + r.IntN(4)
				for j := 0; j < n; j++ {
					w.Spawn()
				}
				bursts++
				ops = append(ops, fmt.Sprintf("burst(%d)", n))
				check("after-burst")
			case x < 9: // release one token (held by the driver or by a granted waiter)
				var l core.Listener
				if len(held) > 0 && r.IntN(2) == 0 {
					l, held = held[0], held[1:]
				} else {
					for _, wt := range w.Waiters {
						if wt.Done() && wt.OK && wt.L != nil && !wt.Completed {
							wt.Completed = true
							l = wt.L
							break
						}
					}
					if l == nil && len(held) > 0 {
						l, held = held[0], held[1:]
					}
				}
				if l == nil {
					continue
				}
				w.Release(l, []string{"success", "ignore", "dropped"}[r.IntN(3)])
				ops = append(ops, "release")
				check("after-release")
			case x == 13 && (k.Evict || T > 0): // a release whose hand-off the delegate refuses (it is free to); the caller it was meant for then gives up
				// (not with neither time-out nor eviction: nothing but a further release could ever end that caller's wait)
				var cand []*blk.Waiter
				for _, wt := range w.Waiters {
					if !wt.Done() && !wt.Cancelled.Load() {
						cand = append(cand, wt)
					}
				}
				if len(cand) == 0 || len(held) == 0 {
					continue
				}
				w.Gate.RefuseNext.Store(true)
				var l core.Listener
				l, held = held[0], held[1:]
				w.Release(l, []string{"success", "ignore", "dropped"}[r.IntN(3)])
				refusedHandoff := !w.Gate.RefuseNext.CompareAndSwap(true, false)
				ops = append(ops, fmt.Sprintf("release-with-refused-hand-off(%v)", refusedHandoff))
				check("after-release-with-refused-hand-off")
				if !refusedHandoff {
					continue
				}
				refusedHandoffs++
				wt := cand[0]
				if k.Ordering != "fifo" {
					wt = cand[len(cand)-1]
				}
				if wt.Done() {
					continue
				}
				if k.Evict {
					w.CancelWaiter(wt)
					ops = append(ops, fmt.Sprintf("cancel(%d)", wt.ID))
					check("after-cancel-of-the-caller-whose-hand-off-was-refused")
				} else if T > 0 && T <= time.Second {
					time.Sleep(T)
					ops = append(ops, fmt.Sprintf("sleep(%v)", T))
					check("after-timeout-of-the-caller-whose-hand-off-was-refused")
				}
			case x == 11 && T > 0 && T < time.Hour: // release at the very instant the oldest blocked caller times out (give-up overlapping a hand-off)
				var first *blk.Waiter
				for _, wt := range w.Waiters {
					if !wt.Done() {
						first = wt
						break
					}
				}
				if first == nil || len(held) == 0 {
					continue
				}
				if at := first.Arrived + T; at > w.Now() {
					time.Sleep(at - w.Now())
				}
				var l core.Listener
				l, held = held[0], held[1:]
				w.Release(l, "success")
				ops = append(ops, fmt.Sprintf("release-at-timeout-of(%d)", first.ID))
				overlaps++
				check("after-release-at-timeout-instant")
			case x == 10 && k.Evict && r.IntN(2) == 0: // release; the caller the hand-off is for is cancelled while the delegate is being asked
				if len(held) == 0 {
					continue
				}
				var hit atomic.Int64
				hit.Store(-1)
				prev := w.Gate.Hook
				w.Gate.Hook = func(e inject.GateEvent) {
					if w.WaiterByGoID(e.GoID) == nil && e.OK && e.Caller >= 0 && e.Caller < len(w.Waiters) && hit.CompareAndSwap(-1, int64(e.Caller)) {
						w.CancelWaiter(w.Waiters[e.Caller])
						for i := 0; i < 300; i++ {
							runtime.Gosched()
						}
					}
					if prev != nil {
						prev(e)
					}
				}
				var l core.Listener
				l, held = held[0], held[1:]
				w.Release(l, "success")
				w.Quiesce()
				w.Gate.Hook = prev
				ops = append(ops, fmt.Sprintf("release+cancel-of-the-hand-off-target(%d)-inside-the-delegate-attempt", hit.Load()))
				overlaps++
				check("after-release-with-cancel-inside-the-hand-off-attempt")
			case x == 10 && k.Evict: // cancel the next-in-line and release at once (no quiescence in between)
				var cand []*blk.Waiter
				for _, wt := range w.Waiters {
					if !wt.Done() && !wt.Cancelled.Load() {
						cand = append(cand, wt)
					}
				}
				if len(cand) == 0 || len(held) == 0 {
					continue
				}
				wt := cand[0]
				if k.Ordering != "fifo" {
					wt = cand[len(cand)-1]
				}
				w.CancelWaiter(wt)
				var l core.Listener
				l, held = held[0], held[1:]
				w.Release(l, "ignore")
				ops = append(ops, fmt.Sprintf("cancel(%d)+release", wt.ID))
				overlaps++
				check("after-cancel-and-release")
			case x < 10: // cancel a blocked caller
				var cand []*blk.Waiter
				for _, wt := range w.Waiters {
					if !wt.Done() && !wt.Cancelled.Load() {
						cand = append(cand, wt)
					}
				}
				if len(cand) == 0 {
					continue
				}
				wt := cand[r.IntN(len(cand))]
				w.CancelWaiter(wt)
				ops = append(ops, fmt.Sprintf("cancel(%d)", wt.ID))
				check("after-cancel")
				if k.Evict && !wt.Done() {
					fail("cancelled-caller-still-in-backlog", rt.J{"waiter": wt.ID})
				}
			default: // let time pass (possibly across backlog timeouts)
				d := time.Duration(1+r.IntN(60)) * time.Millisecond
				if r.IntN(4) == 0 {
					d = k.Timeout
				}
				time.Sleep(d)
				ops = append(ops, fmt.Sprintf("sleep(%v)", d))
				check("after-sleep")
			}
		}
		f := w.Teardown(held)
		if !bad && (f.BacklogLen != 0 || len(f.Unreturned) > 0) {
			fail("backlog-not-empty-after-everything-returned", rt.J{"final": f})
		}
		trace = w.Trace()
	})
	rt.Count("scenarios", 1)
	rt.Count("return_instant_backlog_checks", returnChecks.Swap(0))
	rt.Count("quiescent_checks", int64(checks))
	rt.Count("arrivals_at_full_backlog", int64(fullRefusals))
	rt.Count("arrivals_with_a_done_context", int64(deadArrivals))
	rt.Count("simultaneous_bursts", int64(bursts))
	rt.Count("give_ups_overlapping_a_release", int64(overlaps))
	rt.Count("releases_whose_hand_off_the_delegate_refused", int64(refusedHandoffs))
	if !bad && checks > 5 {
		rt.Distinct(fmt.Sprintf("%v|%d|%v", k, capacity, ops))
	}
	if rt.WantSample() && idx%29 == 3 {
		rt.Sample(rt.J{"kind": k, "capacity": capacity, "ops": ops, "trace_head": trace[:min(len(trace), 14)]})
	}
}

// returnInstantStress: real time, many callers on a queue limiter of limit 1.  Whenever an Acquire returns, the backlog
// may hold at most the callers that are still inside Acquire (returned-so-far read first, entered-so-far read last).
func returnInstantStress(idx int64, r *rand.Rand) {
	st := strategy.NewPreciseStrategy(1)
	dl, err := limiter.NewDefaultLimiter(limit.NewFixedLimit("c12", 1, nil), 1e9, 1e9, 1e5, 100, st, limit.NoopLimitLogger{}, core.EmptyMetricRegistryInstance)
	if err != nil {
		panic(err)
	}
	ord := []limiter.QueueOrdering{limiter.OrderingFIFO, limiter.OrderingLIFO}[r.IntN(2)]
	nG := 4 + r.IntN(9)
	q := limiter.NewQueueBlockingLimiterFromConfig(dl, limiter.QueueLimiterConfig{Ordering: ord, MaxBacklogSize: nG, MaxBacklogTimeout: time.Hour})
	var entered, returned, checks atomic.Int64
	var bad atomic.Pointer[rt.J]
	var wg sync.WaitGroup
	for g := 0; g < nG; g++ {
		wg.Add(1)
		go func(g int) {
			defer wg.Done()
			for i := 0; i < 250; i++ {
				entered.Add(1)
				l, ok := q.Acquire(context.Background())
				r0 := returned.Add(1)
				n := q.VerifBacklogLen()
				e2 := entered.Load()
				checks.Add(1)
				if int64(n) > e2-r0 && bad.Load() == nil {
					d := rt.J{"ordering": ord, "goroutines": nG, "backlog_len_when_an_acquire_returned": n, "callers_inside_acquire_at_most": e2 - r0, "granted": ok}
					bad.Store(&d)
				}
				if ok {
					if (g+i)%3 == 0 {
						runtime.Gosched()
					}
					l.OnSuccess()
				}
			}
		}(g)
	}
	done := make(chan struct{})
	go func() { wg.Wait(); close(done) }()
	last, stable := int64(-1), 0
wait:
	for {
		select {
		case <-done:
			break wait
		case <-time.After(2 * time.Second):
			cur := returned.Load()
			if cur != last {
				last, stable = cur, 0
				continue
			}
			if stable++; stable < 3 {
				continue
			}
			// nothing has returned for six seconds of real time: whoever is still inside Acquire is blocked for good.  Every
			// blocked caller is in the backlog - that is what the backlog is.
			inside, n, busy := entered.Load()-returned.Load(), q.VerifBacklogLen(), st.GetBusyCount()
			for confirm := 0; confirm < 3 && inside > int64(n); confirm++ { // the same picture three more times, a second apart
				time.Sleep(time.Second)
				if returned.Load() != cur || entered.Load()-returned.Load() != inside || q.VerifBacklogLen() != n {
					last, stable = returned.Load(), 0
					continue wait
				}
			}
			if inside > int64(n) {
				rt.Violation(fmt.Sprintf("C12/queue-%s/callers-blocked-in-acquire-that-the-backlog-does-not-hold/stress", ord), idx, rt.J{"ordering": ord, "goroutines": nG,
					"callers_inside_acquire": inside, "backlog_len": n, "strategy_busy": busy, "returned_so_far": cur})
			} else {
				rt.Inconclusive("C12 return-instant stress stopped progressing (callers all in the backlog)")
			}
			return
		}
	}
	rt.Count("return_instant_backlog_checks", checks.Load())
	rt.Count("return_instant_stress_runs", 1)
	if d := bad.Load(); d != nil {
		rt.Violation(fmt.Sprintf("C12/queue-%s/caller-still-in-backlog-when-its-acquire-returned/stress", ord), idx, *d)
		return
	}
	rt.Distinct(fmt.Sprintf("retstress|%s|%d|%d", ord, nG, idx))
}

// defaultBound: a backlog size <= 0 means "use the default" (100).  100 + k simultaneous callers at an exhausted limiter:
// exactly 100 wait, the rest are refused on the spot, the queue_limit gauge says 100.
func defaultBound(t *testing.T, idx int64, r *rand.Rand) {
	size := []int{0, -1, -7}[r.IntN(3)]
	extra := 1 + r.IntN(6)
	k := blk.Kind{Family: "queue", Ordering: []string{"fifo", "lifo", ""}[r.IntN(3)], Evict: r.IntN(2) == 0, Backlog: size, Timeout: time.Hour}
	bubble(t, func(t *testing.T) {
		w := blk.NewWorld(k, 1)
		held := w.Hold(1)
		for i := 0; i < 100+extra; i++ {
			w.Spawn()
		}
		w.Quiesce()
		s := w.Snap("after-burst-of-100-plus")
		ql, _ := w.Reg.GaugeByPrefix(core.MetricQueueLimit)
		inside := len(s.Blocked) + len(s.GivingUp)
		rt.Count("default_bound_cases", 1)
		if inside != 100 || len(s.Refused) != extra || s.QueueGauge != 100 || int(ql) != 100 {
			rt.Violation(fmt.Sprintf("C12/%s/default-backlog-bound-not-applied", k), idx, rt.J{"configured_size": size, "callers": 100 + extra,
				"blocked": inside, "refused": len(s.Refused), "queue_size_gauge": s.QueueGauge, "queue_limit_gauge": ql})
		}
		for _, wt := range w.Waiters {
			if wt.Done() && !wt.OK && wt.Returned != wt.Arrived {
				rt.Violation(fmt.Sprintf("C12/%s/refusal-at-full-backlog-not-immediate", k), idx, rt.J{"waiter": wt.ID})
				break
			}
		}
		w.Teardown(held)
	})
	rt.Distinct(fmt.Sprintf("defaultbound|%v|%d|%d", k, size, extra))
}

// poolBound: the pools configure a queue limiter of their own - the backlog bound handed to the pool constructor is
// the bound that holds.  Every unit is held; callers arrive one at a time (quiescence in between): the first B wait,
// every further one is refused at the instant it arrives; the pool's queue gauges say the same.
func poolBound(t *testing.T, idx int64, r *rand.Rand) {
	ord := []pool.Ordering{pool.OrderingFIFO, pool.OrderingLIFO}[r.IntN(2)]
	L := 1 + r.IntN(6)
	B := 1 + r.IntN(6)
	kind := []string{"fixed", "generic", "fifo-constructor", "lifo-constructor", "json-config"}[r.IntN(5)]
	extra := 1 + r.IntN(3)
	hasReg := true
	tArg := []time.Duration{time.Hour, 0}[r.IntN(2)] // 0: "give me the default time-out" (one second) - the bound is still B
	var sig string
	var detail rt.J
	bubble(t, func(t *testing.T) {
		reg := inject.NewRecRegistry()
		var p core.Limiter
		if kind == "fixed" {
			fp, err := pool.NewFixedPool("c12", ord, L, -1, -1, -1, -1, B, time.Hour, nil, reg)
			if err != nil {
				panic(err)
			}
			p = fp
		} else {
			dl, err := limiter.NewDefaultLimiter(limit.NewFixedLimit("c12", L, nil), 1e9, 1e9, 1e5, 100, strategy.NewSimpleStrategy(L), limit.NoopLimitLogger{}, core.EmptyMetricRegistryInstance)
			if err != nil {
				panic(err)
			}
			switch kind {
			case "generic":
				gp, err := pool.NewPool(dl, ord, B, time.Hour, nil, reg)
				if err != nil {
					panic(err)
				}
				p = gp
			case "fifo-constructor":
				p, hasReg = limiter.NewFifoBlockingLimiter(dl, B, tArg), false
			case "lifo-constructor":
				p = limiter.NewLifoBlockingLimiter(dl, B, tArg, reg)
			default:
				// the configuration as an application reads it from a file: through encoding/json and the struct's tags
				src := fmt.Sprintf(`{"ordering":%q,"maxBacklogSize":%d,"maxBacklogTimeout":%d,"backlogEvictDoneCtx":%v}`,
					[]string{"fifo", "lifo"}[r.IntN(2)], B, int64(tArg), r.IntN(2) == 0)
				var qc limiter.QueueLimiterConfig
				if err := json.Unmarshal([]byte(src), &qc); err != nil {
					panic(err)
				}
				qc.MetricRegistry = reg
				p = limiter.NewQueueBlockingLimiterFromConfig(dl, qc)
			}
		}
		var held []core.Listener
		for i := 0; i < L; i++ {
			l, ok := p.Acquire(context.Background())
			if !ok {
				panic("c12: unit refused")
			}
			held = append(held, l)
		}
		type wt struct {
			done   atomic.Bool
			ok     bool
			l      core.Listener
			cancel context.CancelFunc
		}
		var ws []*wt
		for i := 0; i < B+extra; i++ {
			time.Sleep(time.Millisecond)
			ctx, cancel := context.WithCancel(context.Background())
			w := &wt{cancel: cancel}
			ws = append(ws, w)
			t0 := time.Now()
			var took time.Duration
			go func() { w.l, w.ok = p.Acquire(ctx); took = time.Since(t0); w.done.Store(true) }()
			synctest.Wait()
			if i < B && w.done.Load() && sig == "" {
				sig, detail = "caller-within-the-backlog-bound-did-not-wait", rt.J{"arrival": i, "ok": w.ok}
			}
			if i >= B && (!w.done.Load() || w.ok || took != 0) && sig == "" {
				sig, detail = "caller-waits-although-the-backlog-holds-its-configured-maximum", rt.J{"arrival": i, "returned": w.done.Load(), "callers_already_blocked": B}
			}
		}
		if g, ok := reg.GaugeByPrefix(core.MetricQueueLimit); hasReg && sig == "" && (!ok || int(g) != B) {
			sig, detail = "queue-limit-gauge-differs-from-the-configured-bound", rt.J{"gauge": g}
		}
		if g, ok := reg.GaugeByPrefix(core.MetricQueueSize); hasReg && sig == "" && (!ok || int(g) != B) {
			sig, detail = "queue-size-differs-from-blocked-callers", rt.J{"gauge": g, "blocked": B}
		}
		for _, w := range ws {
			w.cancel()
		}
		for _, l := range held {
			l.OnSuccess()
		}
		for round := 0; round < B+extra+2; round++ {
			synctest.Wait()
			for _, w := range ws {
				if w.done.Load() && w.ok && w.l != nil {
					w.l.OnSuccess()
					w.l = nil
				}
			}
		}
		synctest.Wait()
	})
	rt.Count("pool_backlog_bound_cases", 1)
	cfg := rt.J{"pool": kind, "ordering": ord, "limit": L, "max_backlog": B, "arrivals": B + extra, "timeout_argument": tArg.String()}
	rt.Count("backlog_bound_cases/"+kind, 1)
	if sig != "" {
		detail["config"] = cfg
		rt.Violation(fmt.Sprintf("C12/pool-%s/%s", kind, sig), idx, detail)
		return
	}
	rt.Distinct(fmt.Sprintf("poolbound|%v", cfg))
}

func TestCheck(t *testing.T) {
	rt.Cases(2000, 400000, func(idx int64) {
		r := rt.CaseRand(12, idx)
		rt.Case()
		if idx%25 == 24 {
			defaultBound(t, idx, r)
			return
		}
		if idx%25 == 12 {
			returnInstantStress(idx, r)
			return
		}
		if idx%25 == 6 {
			poolBound(t, idx, r)
			return
		}
		scenario(t, idx, r)
	})
}

// bubble runs f in a synctest bubble; a bubble that cannot end (goroutines left blocked) is recorded, not fatal.
func bubble(t *testing.T, f func(*testing.T)) {
	rt.Bubble(func() { synctest.Test(t, f) }, "C12")
}
