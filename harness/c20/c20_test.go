// C20 — metrics tell the truth; registries poll only between Start and Stop.
package c20

import (
	"bytes"
	"context"
	"fmt"
	"math"
	"math/rand/v2"
	"net"
	"os"
	"regexp"
	"runtime"
	"strings"
	"sync"
	"sync/atomic"
	"testing"
	"testing/synctest"
	"time"

	"github.com/DataDog/datadog-go/v5/statsd"
	gom "github.com/rcrowley/go-metrics"

	"github.com/platinummonkey/go-concurrency-limits/core"
	"github.com/platinummonkey/go-concurrency-limits/limit"
	"github.com/platinummonkey/go-concurrency-limits/limiter"
	"github.com/platinummonkey/go-concurrency-limits/metric_registry/datadog"
	"github.com/platinummonkey/go-concurrency-limits/metric_registry/gometrics"
	"github.com/platinummonkey/go-concurrency-limits/strategy"
	"github.com/platinummonkey/go-concurrency-limits/strategy/matchers"

	"verifharness/internal/inject"
	"verifharness/internal/limgen"
	"verifharness/internal/rt"
)

func TestMain(m *testing.M) {
	gom.NewTimer().Stop() // start go-metrics' global meter arbiter once, up front
	rt.Main(m)
}

func evs(e []inject.MetricEvent) string { return fmt.Sprintf("%+v", e) }

// ---------------------------------------------------------------- A1: simple / precise strategy

type gated interface {
	core.Strategy
	GetLimit() int
	GetBusyCount() int
}

func strategyCase(idx int64, r *rand.Rand) {
	reg := inject.NewRecRegistry()
	tags := []string{"t:" + fmt.Sprint(r.IntN(5))}
	lim := 1 + r.IntN(6)
	var s gated
	kind := "simple"
	if r.IntN(2) == 0 {
		s = strategy.NewSimpleStrategyWithMetricRegistry(lim, reg, tags...)
	} else {
		kind = "precise"
		s = strategy.NewPreciseStrategyWithMetricRegistry(lim, reg, tags...)
	}
	busy := 0
	var held []core.StrategyToken
	var ops []string
	fail := func(sig string, extra rt.J) {
		extra["strategy"], extra["ops"] = kind, ops
		rt.Violation("C20/"+kind+"/"+sig, idx, extra)
	}
	reg.Drain()
	for i := 0; i < 30+r.IntN(50); i++ {
		switch x := r.IntN(10); {
		case x < 6:
			tok, ok := s.TryAcquire(context.Background())
			want := float64(busy)
			if busy < lim {
				want = float64(busy + 1)
			}
			ops = append(ops, fmt.Sprintf("acquire=%v", ok))
			e := reg.Drain()
			rt.Count("strategy_decisions", 1)
			if len(e) != 1 || e[0].Kind != "distribution" || e[0].ID != core.MetricInFlight || e[0].Value != want || inject.Key("", e[0].Tags...) != inject.Key("", tags...) {
				fail("inflight-sample-differs-from-count-at-decision", rt.J{"events": e, "want_value": want, "want_tags": tags})
				return
			}
			if ok {
				busy++
				held = append(held, tok)
			}
		case x < 9:
			if len(held) == 0 {
				continue
			}
			k := r.IntN(len(held))
			held[k].Release()
			held = append(held[:k], held[k+1:]...)
			busy--
			ops = append(ops, "release")
			if e := reg.Drain(); len(e) != 0 {
				fail("sample-emitted-on-release", rt.J{"events": e})
				return
			}
		default:
			v := -1 + r.IntN(9)
			s.SetLimit(v)
			lim = v
			if lim < 1 {
				lim = 1
			}
			ops = append(ops, fmt.Sprintf("SetLimit(%d)", v))
		}
		g, ok := reg.Gauge(core.MetricLimit, tags...)
		if !ok || int(g) != lim {
			fail("limit-gauge-differs-from-enforced-limit", rt.J{"gauge": g, "registered": ok, "enforced": lim, "gauges": reg.GaugeKeys()})
			return
		}
		rt.Count("gauge_reads", 1)
	}
	rt.Distinct(fmt.Sprintf("strategy|%s|%v", kind, ops))
}

// concurrentStrategySamples: many goroutines acquire at once (nobody releases, the limit is never reached): every
// admission decision saw a different count, so the emitted in-flight samples must be exactly 1..K, each once.
func concurrentStrategySamples(idx int64, r *rand.Rand) {
	for round := 0; round < 12; round++ {
		if !concurrentStrategySamplesRound(idx, r) {
			return
		}
	}
}

func concurrentStrategySamplesRound(idx int64, r *rand.Rand) bool {
	reg := inject.NewRecRegistry()
	var s core.Strategy
	kind := "simple"
	if r.IntN(2) == 0 {
		s = strategy.NewSimpleStrategyWithMetricRegistry(1<<20, reg)
	} else {
		kind = "precise"
		s = strategy.NewPreciseStrategyWithMetricRegistry(1<<20, reg)
	}
	nG, per := 2+r.IntN(7), 20+r.IntN(100)
	var wg sync.WaitGroup
	var ready atomic.Int32
	for g := 0; g < nG; g++ {
		wg.Add(1)
		go func() {
			defer wg.Done()
			ready.Add(1)
			for ready.Load() < int32(nG) {
				runtime.Gosched()
			}
			for i := 0; i < per; i++ {
				s.TryAcquire(context.Background())
			}
		}()
	}
	wg.Wait()
	ev := reg.Drain()
	seen := make([]int, nG*per+2)
	bad := len(ev) != nG*per
	for _, e := range ev {
		v := int(e.Value)
		if e.ID != core.MetricInFlight || v < 1 || v > nG*per || float64(v) != e.Value {
			bad = true
			continue
		}
		seen[v]++
		if seen[v] > 1 {
			bad = true
		}
	}
	rt.Count("concurrent_strategy_sample_rounds", 1)
	if bad {
		var dup, missing []int
		for v := 1; v <= nG*per; v++ {
			if seen[v] > 1 {
				dup = append(dup, v)
			} else if seen[v] == 0 {
				missing = append(missing, v)
			}
		}
		rt.Violation("C20/"+kind+"/concurrent-admissions-did-not-each-report-their-own-count", idx, rt.J{"goroutines": nG, "acquires_each": per,
			"samples": len(ev), "values_reported_twice": head(dup), "values_never_reported": head(missing)})
		return false
	}
	rt.Distinct(fmt.Sprintf("concsamples|%s|%d|%d", kind, nG, per))
	return true
}

func head(v []int) []int {
	if len(v) > 12 {
		return v[:12]
	}
	return v
}

// ---------------------------------------------------------------- A2: partitioned strategies

func partitionCase(idx int64, r *rand.Rand) {
	reg := inject.NewRecRegistry()
	names := []string{"a", "b", "c"}[:1+r.IntN(3)]
	nums := make([]int, len(names))
	rem := 32
	for i := range names {
		nums[i] = r.IntN(rem + 1)
		rem -= nums[i]
	}
	lim := 1 + r.IntN(12)
	kind := "lookup"
	var s interface {
		core.Strategy
		Limit() int
	}
	var look *strategy.LookupPartitionStrategy
	if r.IntN(2) == 0 {
		ps := map[string]*strategy.LookupPartition{}
		for i, n := range names {
			ps[n] = strategy.NewLookupPartitionWithMetricRegistry(n, float64(nums[i])/32, 1, reg)
		}
		st, err := strategy.NewLookupPartitionStrategyWithMetricRegistry(ps, nil, int32(lim), reg)
		if err != nil {
			panic(err)
		}
		s, look = st, st
	} else {
		kind = "predicate"
		var ps []*strategy.PredicatePartition
		for i, n := range names {
			ps = append(ps, strategy.NewPredicatePartitionWithMetricRegistry(n, float64(nums[i])/32, matchers.StringPredicateMatcher(n, false), reg))
		}
		st, err := strategy.NewPredicatePartitionStrategyWithMetricRegistry(ps, int32(lim), reg)
		if err != nil {
			panic(err)
		}
		s = st
	}
	share := func(i int) int {
		v := (lim*nums[i] + 31) / 32
		if v < 1 {
			v = 1
		}
		return v
	}
	bins := make([]int, len(names)+1) // names..., unknown (lookup); a partition added later for the key "zz" gets a further slot
	unknownBin := len(names)
	zzBin := unknownBin // where requests for "zz" are accounted: the unknown bin until a partition is added under that key
	total := 0
	type h struct {
		t core.StrategyToken
		b int
	}
	var held []h
	var ops []string
	fail := func(sig string, extra rt.J) {
		extra["strategy"], extra["ops"], extra["limit"], extra["fractions_of_32"] = kind, ops, lim, nums
		rt.Violation("C20/"+kind+"/"+sig, idx, extra)
	}
	reg.Drain()
	for i := 0; i < 30+r.IntN(50); i++ {
		switch x := r.IntN(10); {
		case x < 6:
			b := r.IntN(len(names) + 1)
			key := "zz"
			if b < len(names) {
				key = names[b]
			} else {
				b = zzBin
			}
			ctx := context.WithValue(context.Background(), matchers.LookupPartitionContextKey, key)
			ctx = context.WithValue(ctx, matchers.StringPredicateContextKey, key)
			tok, ok := s.TryAcquire(ctx)
			ops = append(ops, fmt.Sprintf("acquire(%s)=%v", key, ok))
			e := reg.Drain()
			rt.Count("partition_decisions", 1)
			if !ok {
				if len(e) != 0 {
					fail("sample-emitted-on-refusal", rt.J{"events": e})
					return
				}
				continue
			}
			bins[b]++
			total++
			held = append(held, h{tok, b})
			wantTag := "partition:" + key
			if b == unknownBin {
				wantTag = "partition:<unknown>"
			}
			if len(e) != 1 || e[0].Kind != "distribution" || e[0].ID != core.MetricInFlight || e[0].Value != float64(bins[b]) || len(e[0].Tags) != 1 || e[0].Tags[0] != wantTag {
				fail("bin-inflight-sample-differs-from-bin-count", rt.J{"events": e, "want_value": bins[b], "want_tag": wantTag})
				return
			}
		case x < 9:
			if len(held) == 0 {
				continue
			}
			k := r.IntN(len(held))
			held[k].t.Release()
			bins[held[k].b]--
			total--
			held = append(held[:k], held[k+1:]...)
			ops = append(ops, "release")
			if e := reg.Drain(); len(e) != 0 {
				fail("sample-emitted-on-release", rt.J{"events": e})
				return
			}
		case look != nil && r.IntN(2) == 0:
			// the table changes while tokens are outstanding: a token gives its unit back to the bin it was taken from,
			// whatever the key it came in under maps to by then
			if zzBin == unknownBin {
				look.AddPartition("zz", strategy.NewLookupPartitionWithMetricRegistry("zz", 1.0/64, 1, reg))
				bins = append(bins, 0)
				zzBin = len(bins) - 1
				ops = append(ops, fmt.Sprintf("AddPartition(zz) with %d unknown-bin tokens outstanding", bins[unknownBin]))
			} else {
				look.RemovePartition("zz")
				ops = append(ops, fmt.Sprintf("RemovePartition(zz) with %d of its tokens outstanding", bins[zzBin]))
				zzBin = unknownBin
			}
			rt.Count("lookup_table_changes_with_tokens_outstanding", 1)
			reg.Drain()
		default:
			v := r.IntN(14)
			s.SetLimit(v)
			lim = v
			if lim < 1 {
				lim = 1
			}
			ops = append(ops, fmt.Sprintf("SetLimit(%d)", v))
		}
		if g, ok := reg.Gauge(core.MetricLimit); !ok || int(g) != lim {
			fail("limit-gauge-differs-from-enforced-limit", rt.J{"gauge": g, "registered": ok, "enforced": lim})
			return
		}
		for j, n := range names {
			g, ok := reg.Gauge(core.MetricPartitionLimit, "partition:"+n)
			if !ok || int(g) != share(j) {
				fail("partition-gauge-differs-from-enforced-share", rt.J{"partition": n, "gauge": g, "registered": ok, "share": share(j)})
				return
			}
			rt.Count("gauge_reads", 1)
		}
	}
	rt.Distinct(fmt.Sprintf("partition|%s|%v|%v", kind, nums, ops))
}

// ---------------------------------------------------------------- A3: limits

func limitCase(idx int64, r *rand.Rand) {
	reg := inject.NewRecRegistry()
	name := []string{"lim", "x.y", "", "trailing."}[r.IntN(4)]
	tags := []string{"k:v"}
	kinds := []string{"aimd", "vegas", "gradient", "gradient2", "settable", "fixed", "windowed"}
	kind := kinds[r.IntN(len(kinds))]
	var l core.Limit
	var spec any
	wname := ""
	switch kind {
	case "settable":
		l, spec = limit.NewSettableLimit(name, 5, reg, tags...), "settable"
	case "fixed":
		l, spec = limit.NewFixedLimit(name, 5, reg, tags...), "fixed"
	case "windowed":
		s := limgen.Gen(r, "aimd", limgen.Opts{})
		inner := s.New(reg, name, tags...)
		wname = "win"
		w, err := limit.NewWindowedLimit(wname, 1e8, 2e8, 10, 0, inner, reg, tags...)
		if err != nil {
			panic(err)
		}
		l, spec = w, s
	default:
		s := limgen.Gen(r, kind, limgen.Opts{NoProbe: true})
		l, spec = s.New(reg, name, tags...), s
	}
	own := name
	if kind == "windowed" {
		own = wname
	}
	idRTT := core.PrefixMetricWithName(core.MetricRTT, own)
	idIF := core.PrefixMetricWithName(core.MetricInFlight, own)
	idDrop := core.PrefixMetricWithName(core.MetricDropped, own)
	idLimit := core.PrefixMetricWithName(core.MetricLimit, own)
	if !strings.HasSuffix(idLimit, "."+core.MetricLimit) {
		rt.Violation("C20/limit/metric-name-not-prefixed", idx, rt.J{"name": own, "id": idLimit})
		return
	}
	reg.Drain()
	now := int64(1e12)
	drops := 0
	for i := 0; i < 30+r.IntN(60); i++ {
		s := limgen.Benign(r, l.EstimatedLimit(), 1000+r.Int64N(1e6), 0.2)
		if r.IntN(6) == 0 {
			s = limgen.Hostile(r, l.EstimatedLimit(), 0, 0.3)
		}
		if kind == "windowed" {
			s.InFlight += 11
		}
		now += r.Int64N(3e8)
		l.OnSample(now, s.RTT, s.InFlight, s.Drop)
		e := reg.Drain()
		rt.Count("limit_samples", 1)
		if s.Drop {
			drops++
		}
		var nR, nI, nD int
		okv := true
		for _, ev := range e {
			switch ev.ID {
			case idRTT:
				nR++
				okv = okv && ev.Kind == "timing" && ev.Value == float64(s.RTT)
			case idIF:
				nI++
				okv = okv && ev.Kind == "distribution" && ev.Value == float64(s.InFlight)
			case idDrop:
				nD++
				okv = okv && ev.Kind == "count" && ev.Value == 1
			}
		}
		wantD := 0
		if s.Drop {
			wantD = 1
		}
		if nR != 1 || nI != 1 || nD != wantD || !okv {
			rt.Violation("C20/limit/"+kind+"/sample-metrics-not-emitted-exactly-once", idx, rt.J{"spec": spec, "name": own, "sample": s, "events": e,
				"rtt_samples": nR, "inflight_samples": nI, "drop_increments": nD})
			return
		}
		g, ok := reg.Gauge(idLimit, tags...)
		if !ok || int(g) != l.EstimatedLimit() {
			rt.Violation("C20/limit/"+kind+"/limit-gauge-differs-from-estimate", idx, rt.J{"spec": spec, "gauge": g, "registered": ok, "estimate": l.EstimatedLimit(), "gauges": reg.GaugeKeys()})
			return
		}
		rt.Count("gauge_reads", 1)
	}
	rt.Count("limit_drop_samples", int64(drops))
	rt.Distinct(fmt.Sprintf("limit|%s|%v|%s|%d", kind, spec, own, now))
	if rt.WantSample() && idx%97 == 2 {
		rt.Sample(rt.J{"mode": "limit-metrics", "kind": kind, "spec": spec, "metric_ids": []string{idRTT, idIF, idDrop, idLimit}})
	}
}

// ---------------------------------------------------------------- A3': the limit's metrics behind a limiter

// limiterPathCase: an instrumented AIMD limit behind a DefaultLimiter (virtual time).  The in-flight sample the limit
// emits for a window is the largest in-flight count at admission among the completions of that window - dropped ones
// included - and the drop counter moves iff the window contained a drop.
func limiterPathCase(t *testing.T, idx int64, r *rand.Rand) {
	var sig string
	var detail rt.J
	windows := 0
	rt.Bubble(func() {
		synctest.Test(t, func(t *testing.T) {
			reg := inject.NewRecRegistry()
			l := limit.NewAIMDLimit("own", 50, 0.9, 1, reg)
			idIF := core.PrefixMetricWithName(core.MetricInFlight, "own")
			idDrop := core.PrefixMetricWithName(core.MetricDropped, "own")
			dl, err := limiter.NewDefaultLimiter(l, 1, 1, 0, 10, strategy.NewSimpleStrategy(50), limit.NoopLimitLogger{}, core.EmptyMetricRegistryInstance)
			if err != nil {
				panic(err)
			}
			type held struct {
				l  core.Listener
				at int // in-flight count at its admission (itself included)
			}
			var hs []held
			peak, sawDrop := 0, false
			reg.Drain()
			quiet := false // after a window closed with several requests outstanding that then end ignored: one request at a time
			for i := 0; i < 200+r.IntN(300) && sig == ""; i++ {
				want := 1 + r.IntN(8)
				if quiet {
					want = 1
				}
				if len(hs) < want {
					li, ok := dl.Acquire(context.Background())
					if !ok {
						sig, detail = "harness-acquire-refused", rt.J{}
						return
					}
					hs = append(hs, held{li, len(hs) + 1})
					continue
				}
				time.Sleep(time.Duration(1+r.IntN(1000)) * time.Microsecond)
				k := r.IntN(len(hs))
				h := hs[k]
				hs = append(hs[:k], hs[k+1:]...)
				drop := r.IntN(6) == 0
				if !drop && r.IntN(5) == 0 {
					// an ignored completion leaves no trace: neither its in-flight figure nor anything else reaches a window
					h.l.OnIgnore()
					rt.Count("limiter_path_ignored_completions", 1)
					if e := reg.Drain(); len(e) != 0 {
						sig, detail = "ignored-completion-emitted-samples", rt.J{"events": e}
					}
					continue
				}
				if h.at > peak {
					peak = h.at
				}
				if drop {
					sawDrop = true
					h.l.OnDropped()
				} else {
					h.l.OnSuccess()
				}
				var ifs []float64
				drops := 0
				for _, ev := range reg.Drain() {
					switch ev.ID {
					case idIF:
						ifs = append(ifs, ev.Value)
					case idDrop:
						drops++
					}
				}
				if len(ifs) == 0 {
					continue
				}
				windows++
				rt.Count("limiter_path_windows", 1)
				if len(ifs) != 1 || int(ifs[0]) != peak {
					sig, detail = "in-flight-sample-of-the-window-differs-from-the-peak-at-admission", rt.J{"emitted": ifs, "peak_at_admission_incl_dropped": peak, "window_had_drop": sawDrop}
				} else if (drops == 1) != sawDrop || drops > 1 {
					sig, detail = "drop-counter-disagrees-with-the-window", rt.J{"increments": drops, "window_had_drop": sawDrop}
				}
				peak, sawDrop = 0, false
				quiet = false
				if len(hs) > 1 && r.IntN(3) == 0 {
					// everything still outstanding at this window's end is abandoned (ignored): the next window is made of single
					// requests only and reports an in-flight figure of 1
					for _, h := range hs {
						h.l.OnIgnore()
					}
					hs = nil
					if e := reg.Drain(); len(e) != 0 {
						sig, detail = "ignored-completion-emitted-samples", rt.J{"events": e}
					}
					quiet = true
					rt.Count("limiter_path_windows_after_abandoned_requests", 1)
				}
			}
			for _, h := range hs {
				h.l.OnIgnore()
			}
		})
	}, "C20")
	if sig != "" {
		rt.Violation("C20/limiter-path/"+sig, idx, detail)
		return
	}
	if windows > 0 {
		rt.Distinct(fmt.Sprintf("lpath|%d|%d", windows, idx))
	}
}

// concurrentLimiterInflight: many goroutines acquire and complete on a limiter whose limit is a constant L.  Never more
// than L requests are in flight, so no in-flight figure the limiter hands to the algorithm (and the algorithm publishes
// as its in-flight metric) may exceed L.
func concurrentLimiterInflight(idx int64, r *rand.Rand) {
	L := 2 + r.IntN(3)
	rec := inject.NewScriptedLimit(L, func(int) int { return L })
	var st core.Strategy = strategy.NewSimpleStrategy(L)
	kind := "simple"
	if r.IntN(2) == 0 {
		st, kind = strategy.NewPreciseStrategy(L), "precise"
	}
	dl, err := limiter.NewDefaultLimiter(rec, 1, 1, 0, 10, st, limit.NoopLimitLogger{}, core.EmptyMetricRegistryInstance)
	if err != nil {
		panic(err)
	}
	nG := 6 + r.IntN(11)
	var wg sync.WaitGroup
	for g := 0; g < nG; g++ {
		wg.Add(1)
		go func(g int) {
			defer wg.Done()
			for i := 0; i < 400; i++ {
				l, ok := dl.Acquire(context.Background())
				if !ok {
					runtime.Gosched()
					continue
				}
				if (i+g)%3 == 0 {
					runtime.Gosched()
				}
				if (i+g)%11 == 0 {
					l.OnDropped()
				} else {
					l.OnSuccess()
				}
			}
		}(g)
	}
	wg.Wait()
	samples := rec.Samples()
	rt.Count("concurrent_limiter_inflight_samples", int64(len(samples)))
	over := 0
	worst := 0
	for _, sm := range samples {
		if sm.InFlight > L {
			over++
			if sm.InFlight > worst {
				worst = sm.InFlight
			}
		}
	}
	if over > 0 {
		rt.Violation("C20/limiter+"+kind+"/in-flight-figure-above-what-was-ever-in-flight", idx, rt.J{"limit": L, "goroutines": nG, "samples": len(samples), "samples_above_the_limit": over, "largest": worst})
		return
	}
	rt.Distinct(fmt.Sprintf("clif|%s|%d|%d|%d", kind, L, nG, len(samples)))
}

// ---------------------------------------------------------------- A4: queue limiter gauges

func queueGaugeCase(idx int64, r *rand.Rand) {
	reg := inject.NewRecRegistry()
	dl, _ := limiter.NewDefaultLimiter(limit.NewFixedLimit("q", 2, nil), 1, 1, 0, 10, strategy.NewSimpleStrategy(2), nil, core.EmptyMetricRegistryInstance)
	size := -1 + r.IntN(8)
	ord := []limiter.QueueOrdering{limiter.OrderingFIFO, limiter.OrderingLIFO, ""}[r.IntN(3)]
	limiter.NewQueueBlockingLimiterFromConfig(dl, limiter.QueueLimiterConfig{Ordering: ord, MaxBacklogSize: size, MaxBacklogTimeout: time.Second, MetricRegistry: reg})
	want := size
	if size <= 0 {
		want = 100
	}
	gl, ok1 := reg.GaugeByPrefix(core.MetricQueueLimit)
	gs, ok2 := reg.GaugeByPrefix(core.MetricQueueSize)
	rt.Count("queue_gauge_cases", 1)
	rt.Count("gauge_reads", 2)
	if !ok1 || !ok2 || int(gl) != want || gs != 0 {
		rt.Violation("C20/queue/queue-gauges-differ-from-configuration", idx, rt.J{"configured_backlog": size, "queue_limit": gl, "queue_size": gs, "gauges": reg.GaugeKeys()})
		return
	}
	rt.Distinct(fmt.Sprintf("queue|%d|%s", size, ord))
}

// queueGaugeDynamic: the queue_size gauge while callers come and go, including a caller whose backlog time-out (or
// cancellation, with eviction on) fires at the very instant a release hands it the token.  At every quiescent point
// the gauge is the number of callers still blocked; at the end it is 0.
func queueGaugeDynamic(t *testing.T, idx int64, r *rand.Rand) {
	var sig string
	var detail rt.J
	ord := []limiter.QueueOrdering{limiter.OrderingFIFO, limiter.OrderingLIFO}[r.IntN(2)]
	evict := r.IntN(2) == 0
	T := time.Duration(5+r.IntN(50)) * time.Millisecond
	nW := 2 + r.IntN(3)
	mode := []string{"release-at-timeout-instant", "cancel-and-release-together", "plain"}[r.IntN(3)]
	if mode == "cancel-and-release-together" {
		evict = true
	}
	rt.Bubble(func() {
		synctest.Test(t, func(t *testing.T) {
			reg := inject.NewRecRegistry()
			dl, _ := limiter.NewDefaultLimiter(limit.NewFixedLimit("q", 1, nil), 1e9, 1e9, 1e5, 100, strategy.NewSimpleStrategy(1), nil, core.EmptyMetricRegistryInstance)
			q := limiter.NewQueueBlockingLimiterFromConfig(dl, limiter.QueueLimiterConfig{Ordering: ord, MaxBacklogSize: 10, MaxBacklogTimeout: T, BacklogEvictDoneCtx: evict, MetricRegistry: reg})
			holder, ok := q.Acquire(context.Background())
			if !ok {
				panic("c20: first unit refused")
			}
			type wt struct {
				done   atomic.Bool
				ok     bool
				l      core.Listener
				cancel context.CancelFunc
			}
			var ws []*wt
			blocked := func() int {
				n := 0
				for _, w := range ws {
					if !w.done.Load() {
						n++
					}
				}
				return n
			}
			check := func(tag string) {
				synctest.Wait()
				g, ok := reg.GaugeByPrefix(core.MetricQueueSize)
				rt.Count("queue_size_gauge_reads_at_quiescence", 1)
				if sig == "" && (!ok || g != float64(blocked())) {
					sig, detail = "queue-size-gauge-differs-from-blocked-callers", rt.J{"at": tag, "gauge": g, "callers_blocked": blocked()}
				}
			}
			for i := 0; i < nW; i++ {
				ctx, cancel := context.WithCancel(context.Background())
				w := &wt{cancel: cancel}
				ws = append(ws, w)
				go func() { w.l, w.ok = q.Acquire(ctx); w.done.Store(true) }()
				synctest.Wait()
				if i == 0 {
					time.Sleep(time.Millisecond) // the first caller's time-out is the earliest, and alone at its instant
				}
			}
			check("after-arrivals")
			head := ws[0]
			if ord == limiter.OrderingLIFO {
				head = ws[len(ws)-1]
			}
			switch mode {
			case "release-at-timeout-instant":
				if ord == limiter.OrderingFIFO {
					time.Sleep(T - time.Millisecond) // now = arrival of the first caller + T
				} else {
					time.Sleep(T) // the newest caller arrived 1 ms later... every older one has just timed out or does so now
				}
			case "cancel-and-release-together":
				head.cancel()
			}
			holder.OnSuccess()
			check("after-release")
			// complete whatever was granted, until nobody holds anything; let every time-out pass
			for round := 0; round < nW+2; round++ {
				for _, w := range ws {
					if w.done.Load() && w.ok && w.l != nil {
						w.l.OnSuccess()
						w.l = nil
					}
				}
				check("after-completions")
			}
			time.Sleep(2 * T)
			check("after-every-time-out")
			for _, w := range ws {
				if w.done.Load() && w.ok && w.l != nil {
					w.l.OnSuccess()
					w.l = nil
				}
				w.cancel()
			}
			check("end")
		})
	}, "C20")
	rt.Count("queue_gauge_dynamic_cases", 1)
	cfg := rt.J{"ordering": ord, "evict": evict, "timeout": T.String(), "waiters": nW, "mode": mode}
	if sig != "" {
		detail["config"] = cfg
		rt.Violation("C20/queue/"+sig, idx, detail)
		return
	}
	rt.Distinct(fmt.Sprintf("qdyn|%v", cfg))
}

// ---------------------------------------------------------------- B1/B2: bundled registries forward samples

type capture struct {
	mu sync.Mutex
	b  bytes.Buffer
}

func (c *capture) Write(p []byte) (int, error) { c.mu.Lock(); defer c.mu.Unlock(); return c.b.Write(p) }
func (c *capture) Close() error                { return nil }
func (c *capture) take() string {
	c.mu.Lock()
	defer c.mu.Unlock()
	s := c.b.String()
	c.b.Reset()
	return s
}

func forwardCase(idx int64, r *rand.Rand) {
	prefix := []string{"pfx", "pfx.", "a.b", ""}[r.IntN(4)]
	ids := []string{"m1", ".lead", "x.rtt", "q"}
	if r.IntN(2) == 0 {
		// go-metrics
		greg := gom.NewRegistry()
		mr, err := gometrics.NewGoMetricsMetricRegistry(greg, "", prefix, time.Hour)
		if err != nil {
			panic(err)
		}
		want := prefix
		if want == "" {
			want = "limiter."
		}
		if !strings.HasSuffix(want, ".") {
			want += "."
		}
		// ids may themselves begin with the prefix (a limit named like the prefix, nested names): they are prefixed all the same
		ids := append(append([]string(nil), ids...), want+"nested", strings.TrimSuffix(want, ".")+"x")
		for k := 0; k < 6; k++ {
			id := ids[r.IntN(len(ids))] + fmt.Sprint(k)
			full := want + strings.TrimPrefix(id, ".")
			v := float64(1 + r.IntN(1000))
			kind := r.IntN(3)
			var l core.MetricSampleListener
			switch kind {
			case 0:
				l = mr.RegisterDistribution(id)
			case 1:
				l = mr.RegisterTiming(id)
			default:
				l = mr.RegisterCount(id)
			}
			n := 1 + r.IntN(3)
			for j := 0; j < n; j++ {
				l.AddSample(v)
			}
			got := greg.Get(full)
			ok := false
			switch m := got.(type) {
			case gom.Histogram:
				ok = kind == 0 && m.Count() == int64(n) && m.Max() == int64(v)
			case gom.Timer:
				ok = kind == 1 && m.Count() == int64(n) && m.Max() == int64(time.Duration(v)*time.Millisecond)
			case gom.Counter:
				ok = kind == 2 && m.Count() == int64(n)*int64(v)
			}
			rt.Count("forwarded_samples_checked", int64(n))
			if !ok {
				rt.Violation("C20/gometrics/sample-not-forwarded-to-metric-of-right-kind-and-name", idx, rt.J{"prefix": prefix, "id": id, "want_name": full,
					"kind(0=dist,1=timing,2=count)": kind, "found": fmt.Sprintf("%T", got), "value": v, "samples": n})
				return
			}
		}
		rt.Distinct(fmt.Sprintf("fw-gom|%s|%d", prefix, idx))
		return
	}
	// datadog wire capture
	w := &capture{}
	cl, err := statsd.NewWithWriter(w, statsd.WithoutTelemetry(), statsd.WithoutClientSideAggregation(), statsd.WithoutOriginDetection())
	if err != nil {
		panic(err)
	}
	defer cl.Close()
	mr, err := datadog.NewMetricRegistryWithClient(cl, prefix, time.Hour)
	if err != nil {
		panic(err)
	}
	want := prefix
	if !strings.HasSuffix(want, ".") {
		want += "."
	}
	ids = append(append([]string(nil), ids...), want+"nested", strings.TrimSuffix(want, ".")+"x")
	for k := 0; k < 6; k++ {
		id := ids[r.IntN(len(ids))] + fmt.Sprint(k)
		full := want + strings.TrimPrefix(id, ".")
		v := float64(1 + r.IntN(1000))
		kind := r.IntN(3)
		var l core.MetricSampleListener
		suffix := ""
		switch kind {
		case 0:
			l, suffix = mr.RegisterDistribution(id), "|d"
		case 1:
			l, suffix = mr.RegisterTiming(id), "|ms"
		default:
			l, suffix = mr.RegisterCount(id), "|c"
		}
		l.AddSample(v)
		cl.Flush()
		out := w.take()
		rt.Count("forwarded_samples_checked", 1)
		line := ""
		for _, ln := range strings.Split(out, "\n") {
			if strings.HasPrefix(ln, full+":") {
				line = ln
			}
		}
		val := 0.0
		okParse := false
		if line != "" {
			rest := strings.TrimPrefix(line, full+":")
			if i := strings.Index(rest, "|"); i > 0 {
				_, err := fmt.Sscanf(rest[:i], "%g", &val)
				okParse = err == nil && strings.HasPrefix(rest[i:], suffix) && (len(rest[i:]) == len(suffix) || rest[i+len(suffix)] == '|')
			}
		}
		if !okParse || math.Abs(val-v) > 1e-6 {
			rt.Violation("C20/datadog/sample-not-forwarded-to-metric-of-right-kind-and-name", idx, rt.J{"prefix": prefix, "id": id, "want_line_prefix": full + ":",
				"want_kind_suffix": suffix, "value": v, "wire": out})
			return
		}
	}
	rt.Distinct(fmt.Sprintf("fw-dd|%s|%d", prefix, idx))
}

// ---------------------------------------------------------------- B1': polled gauges, suppliers that have nothing to report

// gaugePollCase: a started registry polls three gauge suppliers: one always reports a value, one never has a value
// (ok == false), one has values for a while and then none.  After at least three polls and Stop: the backend holds
// the reported values under the prefixed names and nothing at all for the supplier that never reported.
func gaugePollCase(idx int64, r *rand.Rand) {
	poll := time.Duration(100+r.IntN(300)) * time.Microsecond
	prefix := []string{"pfx", "a.b.", ""}[r.IntN(3)]
	vA := float64(1 + r.IntN(1000))
	vC := float64(1 + r.IntN(1000))
	okCalls := int64(1 + r.IntN(3))
	var nA, nB, nC atomic.Int64
	supA := func() (float64, bool) { nA.Add(1); return vA, true }
	supB := func() (float64, bool) { nB.Add(1); return 777, false }
	supC := func() (float64, bool) {
		if nC.Add(1) <= okCalls {
			return vC, true
		}
		return -5, false
	}
	// late: two of the three gauges are registered only after the registry was started and has polled at least twice
	late := r.IntN(2) == 0
	lateNeverPolled := false
	register := func(mr core.MetricRegistry) {
		mr.RegisterGauge("gA", supA)
		if !late {
			mr.RegisterGauge("gB", supB)
			mr.RegisterGauge("gC", supC)
		}
		mr.Start()
		if late {
			for i := 0; i < 40000 && nA.Load() < 2; i++ {
				time.Sleep(poll)
			}
			mr.RegisterGauge("gB", supB)
			mr.RegisterGauge("gC", supC)
			rt.Count("gauges_registered_after_start", 2)
			base := nA.Load()
			for i := 0; i < 40000 && nA.Load() < base+40 && (nB.Load() == 0 || nC.Load() == 0); i++ {
				time.Sleep(poll)
			}
			// the early gauge was polled 40 more times (a logical clock): the late ones must have been polled as well
			lateNeverPolled = nA.Load() >= base+40 && (nB.Load() == 0 || nC.Load() == 0)
		}
	}
	waitPolls := func() bool {
		for i := 0; i < 40000 && (nA.Load() < 3 || nB.Load() < 3 || nC.Load() < okCalls+2); i++ {
			time.Sleep(poll)
		}
		return nA.Load() >= 3 && nB.Load() >= 3 && nC.Load() >= okCalls+2
	}
	if r.IntN(2) == 0 {
		greg := gom.NewRegistry()
		mr, err := gometrics.NewGoMetricsMetricRegistry(greg, "", prefix, poll)
		if err != nil {
			panic(err)
		}
		want := prefix
		if want == "" {
			want = "limiter."
		}
		if !strings.HasSuffix(want, ".") {
			want += "."
		}
		register(mr)
		if lateNeverPolled {
			mr.Stop()
			rt.Violation("C20/gometrics/gauge-registered-after-start-never-polled", idx, rt.J{"polls_of_the_early_gauge": nA.Load(), "polls_of_the_late_gauges": []int64{nB.Load(), nC.Load()}, "poll_period": poll.String()})
			return
		}
		okW := waitPolls()
		mr.Stop()
		if !okW {
			rt.Inconclusive("C20 gauges not polled three times (gometrics)")
			return
		}
		rt.Count("polled_gauge_checks", 1)
		cfg := rt.J{"registry": "gometrics", "prefix": prefix, "poll_period": poll.String(), "polls": nA.Load()}
		if g := greg.Get(want + "gB"); g != nil {
			val := 0.0
			if gf, ok := g.(gom.GaugeFloat64); ok {
				val = gf.Value()
			}
			rt.Violation("C20/gometrics/gauge-reported-for-a-supplier-that-has-no-value", idx, rt.J{"config": cfg, "name": want + "gB", "backend_value": val})
			return
		}
		for name, v := range map[string]float64{"gA": vA, "gC": vC} {
			gf, ok := greg.Get(want + name).(gom.GaugeFloat64)
			if !ok || gf.Value() != v {
				got := "absent"
				if ok {
					got = fmt.Sprint(gf.Value())
				}
				rt.Violation("C20/gometrics/polled-gauge-value-differs-from-supplier", idx, rt.J{"config": cfg, "name": want + name, "want": v, "backend": got})
				return
			}
		}
		rt.Distinct(fmt.Sprintf("gp-gom|%s|%v|%d", prefix, poll, okCalls))
		return
	}
	w := &capture{}
	cl, err := statsd.NewWithWriter(w, statsd.WithoutTelemetry(), statsd.WithoutClientSideAggregation(), statsd.WithoutOriginDetection())
	if err != nil {
		panic(err)
	}
	defer cl.Close()
	if prefix == "" {
		prefix = "dflt"
	}
	mr, err := datadog.NewMetricRegistryWithClient(cl, prefix, poll)
	if err != nil {
		panic(err)
	}
	want := prefix
	if !strings.HasSuffix(want, ".") {
		want += "."
	}
	register(mr)
	if lateNeverPolled {
		mr.Stop()
		rt.Violation("C20/datadog/gauge-registered-after-start-never-polled", idx, rt.J{"polls_of_the_early_gauge": nA.Load(), "polls_of_the_late_gauges": []int64{nB.Load(), nC.Load()}, "poll_period": poll.String()})
		return
	}
	okW := waitPolls()
	mr.Stop()
	cl.Flush()
	out := w.take()
	if !okW {
		rt.Inconclusive("C20 gauges not polled three times (datadog)")
		return
	}
	rt.Count("polled_gauge_checks", 1)
	cfg := rt.J{"registry": "datadog", "prefix": prefix, "poll_period": poll.String(), "polls": nA.Load()}
	seen := map[string][]string{}
	for _, ln := range strings.Split(out, "\n") {
		if i := strings.Index(ln, ":"); i > 0 {
			seen[ln[:i]] = append(seen[ln[:i]], ln[i+1:])
		}
	}
	if len(seen[want+"gB"]) > 0 {
		rt.Violation("C20/datadog/gauge-reported-for-a-supplier-that-has-no-value", idx, rt.J{"config": cfg, "wire_lines": seen[want+"gB"][:1]})
		return
	}
	for name, v := range map[string]float64{"gA": vA, "gC": vC} {
		lines := seen[want+name]
		bad := len(lines) == 0
		for _, ln := range lines {
			var got float64
			i := strings.Index(ln, "|")
			if i <= 0 {
				bad = true
				break
			}
			if _, err := fmt.Sscanf(ln[:i], "%g", &got); err != nil || got != v || !strings.HasPrefix(ln[i:], "|g") {
				bad = true
			}
		}
		if name == "gC" && int64(len(lines)) != okCalls {
			bad = true
		}
		if bad {
			rt.Violation("C20/datadog/polled-gauge-value-differs-from-supplier", idx, rt.J{"config": cfg, "name": want + name, "want": v, "wire_lines": head2(lines), "lines": len(lines), "values_the_supplier_had": okCalls})
			return
		}
	}
	rt.Distinct(fmt.Sprintf("gp-dd|%s|%v|%d", prefix, poll, okCalls))
}

func head2(v []string) []string {
	if len(v) > 4 {
		return v[:4]
	}
	return v
}

// addrCase: the datadog registry built from an address (its own client): samples reach the agent under the prefixed
// name, the empty prefix meaning the documented default "limiter.".  A loop-back UDP socket plays the agent.
func addrCase(idx int64, r *rand.Rand) {
	pc, err := net.ListenPacket("udp", "127.0.0.1:0")
	if err != nil {
		rt.Inconclusive("C20 no loop-back UDP socket")
		return
	}
	defer pc.Close()
	prefix := []string{"", "", "svc", "svc.", "a.b"}[r.IntN(5)]
	mr, err := datadog.NewMetricRegistry(pc.LocalAddr().String(), prefix, time.Hour)
	if err != nil {
		panic(err)
	}
	want := prefix
	if want == "" {
		want = "limiter."
	}
	if !strings.HasSuffix(want, ".") {
		want += "."
	}
	id := fmt.Sprintf("m%d", r.IntN(1000))
	v := float64(1 + r.IntN(1000))
	kind := r.IntN(2)
	suffix := "|d"
	if kind == 0 {
		mr.RegisterDistribution(id).AddSample(v)
	} else {
		suffix = "|ms"
		mr.RegisterTiming(id).AddSample(v)
	}
	// the client flushes its buffer every 100 ms; wait (bounded) for the datagram that carries our id
	var lines []string
	buf := make([]byte, 65536)
	found := ""
	for tries := 0; tries < 40 && found == ""; tries++ {
		pc.SetReadDeadline(time.Now().Add(250 * time.Millisecond))
		n, _, err := pc.ReadFrom(buf)
		if err != nil {
			continue
		}
		for _, ln := range strings.Split(string(buf[:n]), "\n") {
			if strings.Contains(ln, id+":") {
				found = ln
			}
			lines = append(lines, ln)
		}
	}
	if found == "" {
		rt.Inconclusive("C20 no datagram with the sample arrived at the loop-back agent")
		return
	}
	rt.Count("forwarded_samples_checked_via_udp", 1)
	wantPrefix := fmt.Sprintf("%s%s:<%g>%s", want, id, v, suffix)
	okLine := false
	if rest, has := strings.CutPrefix(found, want+id+":"); has {
		if i := strings.Index(rest, "|"); i > 0 {
			var got float64
			_, err := fmt.Sscanf(rest[:i], "%g", &got)
			okLine = err == nil && got == v && strings.HasPrefix(rest[i:], suffix) && (len(rest[i:]) == len(suffix) || rest[i+len(suffix)] == '|')
		}
	}
	if !okLine {
		rt.Violation("C20/datadog/sample-not-forwarded-to-metric-of-right-kind-and-name", idx, rt.J{"constructor": "NewMetricRegistry(addr)", "prefix": prefix, "id": id,
			"want_line_prefix": wantPrefix, "wire_line": found})
		return
	}
	// the registry is started and stopped (Stop ends the poller, nothing else): samples offered afterwards are still
	// forwarded, through the same listener and through one registered after the Stop
	if r.IntN(2) == 0 {
		rt.Distinct(fmt.Sprintf("addr|%s|%d", prefix, kind))
		return
	}
	lateListener := mr.RegisterDistribution(id + "late")
	mr.Start()
	if r.IntN(2) == 0 {
		mr.Start()
	}
	mr.Stop()
	id2 := id + "after"
	l2 := mr.RegisterDistribution(id2)
	seen2, seenLate := false, false
	for tries := 0; tries < 40 && !(seen2 && seenLate); tries++ {
		l2.AddSample(v) // offered again on every try: one datagram that gets through is enough
		lateListener.AddSample(v)
		pc.SetReadDeadline(time.Now().Add(250 * time.Millisecond))
		n, _, err := pc.ReadFrom(buf)
		if err != nil {
			continue
		}
		for _, ln := range strings.Split(string(buf[:n]), "\n") {
			if strings.HasPrefix(ln, want+id2+":") {
				seen2 = true
			}
			if strings.HasPrefix(ln, want+id+"late:") {
				seenLate = true
			}
		}
	}
	rt.Count("samples_after_a_stop_checked_via_udp", 1)
	if !seen2 || !seenLate {
		rt.Violation("C20/datadog/samples-offered-after-Stop-never-reach-the-backend", idx, rt.J{"constructor": "NewMetricRegistry(addr)", "prefix": prefix,
			"listener_registered_after_the_stop_forwarded": seen2, "listener_registered_before_the_start_forwarded": seenLate,
			"note": "the first sample of this case did arrive at the same loop-back socket; these were offered 40 times over 10 s"})
		return
	}
	rt.Distinct(fmt.Sprintf("addr|%s|%d|restart", prefix, kind))
}

// ---------------------------------------------------------------- B3: life cycle

type registry interface {
	core.MetricRegistry
}

var goroutineRe = regexp.MustCompile(`(?m)^goroutine \d+ `)

func pollers(pkg string) int {
	buf := make([]byte, 1<<20)
	n := runtime.Stack(buf, true)
	blocks := strings.Split(string(buf[:n]), "\n\n")
	c := 0
	for _, b := range blocks {
		if strings.Contains(b, "metric_registry/"+pkg+".(*MetricRegistry).Start.func1") || strings.Contains(b, "metric_registry/"+pkg+".(*MetricRegistry).run(") {
			c++
		}
	}
	return c
}

func stacksOf(sub string) string {
	buf := make([]byte, 1<<20)
	n := runtime.Stack(buf, true)
	var out []string
	for _, b := range strings.Split(string(buf[:n]), "\n\n") {
		if strings.Contains(b, sub) {
			out = append(out, b)
		}
	}
	return strings.Join(out, "\n\n")
}

// settle waits (bounded) for the poller count to reach want; a stable different count is a definite state.
func settle(pkg string, want int) int {
	got := pollers(pkg)
	for i := 0; i < 4000 && got != want; i++ {
		time.Sleep(500 * time.Microsecond)
		got = pollers(pkg)
	}
	return got
}

func withWatchdog(f func()) bool {
	done := make(chan struct{})
	go func() { f(); close(done) }()
	select {
	case <-done:
		return true
	case <-time.After(20 * time.Second):
		return false
	}
}

func lifecycleCase(idx int64, r *rand.Rand) {
	pkg := "gometrics"
	var mr registry
	poll := time.Duration(100+r.IntN(400)) * time.Microsecond
	var closer func()
	if r.IntN(2) == 0 {
		g, err := gometrics.NewGoMetricsMetricRegistry(gom.NewRegistry(), "", "p", poll)
		if err != nil {
			panic(err)
		}
		mr = g
	} else {
		pkg = "datadog"
		cl, err := statsd.NewWithWriter(&capture{}, statsd.WithoutTelemetry(), statsd.WithoutClientSideAggregation(), statsd.WithoutOriginDetection())
		if err != nil {
			panic(err)
		}
		closer = func() { cl.Close() }
		d, err := datadog.NewMetricRegistryWithClient(cl, "p", poll)
		if err != nil {
			panic(err)
		}
		mr = d
	}
	var polls atomic.Int64
	ngauge := 0
	slowSupplier := r.IntN(2) == 0 // a supplier that takes about half a poll period: Stop often lands while a poll is in progress
	addGauge := func() {
		ngauge++
		mr.RegisterGauge(fmt.Sprintf("g%d", ngauge), func() (float64, bool) {
			if slowSupplier {
				time.Sleep(poll / 2)
			}
			polls.Add(1)
			return 1, true
		})
	}
	atReturn := int64(-1) // supplier invocations counted at the instant the last Stop returned
	addGauge()
	started := false
	var ops []string
	abort := func(sig string, extra rt.J) {
		extra["registry"], extra["ops"], extra["poll_period"] = pkg, ops, poll.String()
		rt.Violation("C20/"+pkg+"/"+sig, idx, extra)
		// a violating registry may have an immortal or wedged poller: report and leave the process
		rt.Flush()
		os.Exit(0)
	}
	check := func() {
		want := 0
		if started {
			want = 1
		}
		got := settle(pkg, want)
		rt.Count("lifecycle_states_checked", 1)
		if got != want {
			sig := "poller-alive-while-stopped"
			if got > 1 {
				sig = "more-than-one-poller"
			} else if got == 0 {
				sig = "no-poller-although-started"
			}
			abort(sig, rt.J{"pollers": got, "model_started": started})
		}
		if !started {
			if atReturn >= 0 && polls.Load() != atReturn {
				abort("gauge-polled-after-stop-returned", rt.J{"polls_when_stop_returned": atReturn, "polls_now": polls.Load(), "slow_supplier": slowSupplier})
			}
			c1 := polls.Load()
			time.Sleep(6 * poll)
			if c2 := polls.Load(); c2 != c1 {
				abort("gauge-polled-while-stopped", rt.J{"polls_before": c1, "polls_after": c2})
			}
			rt.Count("frozen_poll_count_checks", 1)
		} else {
			c1 := polls.Load()
			for i := 0; i < 2000 && polls.Load() == c1; i++ {
				time.Sleep(poll)
			}
			if polls.Load() == c1 {
				rt.Inconclusive("C20 started poller did not poll within 2000 periods (loaded machine?)")
			} else {
				rt.Count("live_poll_observations", 1)
			}
		}
	}
	check() // before any Start: suppliers must not be invoked
	n := 2 + r.IntN(7)
	for i := 0; i < n; i++ {
		var name string
		var f func()
		switch r.IntN(5) {
		case 0, 1:
			name, f = "Start", mr.Start
		case 2, 3:
			name, f = "Stop", mr.Stop
		default:
			name, f = "RegisterGauge", addGauge
		}
		ops = append(ops, name)
		if r.IntN(3) == 0 && name != "RegisterGauge" {
			time.Sleep(time.Duration(r.IntN(3)) * poll) // vary the phase relative to the ticker
		}
		if !withWatchdog(f) {
			st := stacksOf("metric_registry/" + pkg)
			if strings.Contains(st, "sync.(*WaitGroup).Wait") && strings.Contains(st, ".run(") && strings.Contains(st, "sync.(*Mutex).Lock") {
				abort(name+"-deadlocks-with-poll-tick", rt.J{"stacks": st})
			}
			rt.Inconclusive("C20 " + name + " did not return within the watchdog; no wait-for cycle recognised")
			rt.Flush()
			os.Exit(0)
		}
		switch name {
		case "Start":
			started = true
			atReturn = -1
		case "Stop":
			if started {
				atReturn = polls.Load()
			}
			started = false
		}
		check()
	}
	ops = append(ops, "Stop(final)")
	if !withWatchdog(mr.Stop) {
		st := stacksOf("metric_registry/" + pkg)
		abort("Stop-deadlocks-with-poll-tick", rt.J{"stacks": st})
	}
	started = false
	check()
	if closer != nil {
		closer()
	}
	rt.Count("lifecycle_cases/"+pkg, 1)
	rt.Distinct(fmt.Sprintf("life|%s|%v", pkg, ops))
	if rt.WantSample() && idx%9 == 0 {
		rt.Sample(rt.J{"mode": "lifecycle", "registry": pkg, "ops": ops, "poll_period": poll.String(), "polls_seen": polls.Load()})
	}
}

// concurrent Start/Stop from several goroutines, then a final Stop: nothing may survive, nothing may hang.
func lifecycleConcurrent(idx int64, r *rand.Rand) {
	pkg := "gometrics"
	var mr registry
	poll := time.Duration(50+r.IntN(200)) * time.Microsecond
	var closer func()
	if r.IntN(2) == 0 {
		g, _ := gometrics.NewGoMetricsMetricRegistry(gom.NewRegistry(), "", "p", poll)
		mr = g
	} else {
		pkg = "datadog"
		cl, err := statsd.NewWithWriter(&capture{}, statsd.WithoutTelemetry(), statsd.WithoutClientSideAggregation(), statsd.WithoutOriginDetection())
		if err != nil {
			panic(err)
		}
		closer = func() { cl.Close() }
		d, _ := datadog.NewMetricRegistryWithClient(cl, "p", poll)
		mr = d
	}
	var polls atomic.Int64
	mr.RegisterGauge("g", func() (float64, bool) { polls.Add(1); return 1, true })
	nG := 2 + r.IntN(3)
	scripts := make([][]bool, nG)
	for g := range scripts {
		for k := 0; k < 6+r.IntN(10); k++ {
			scripts[g] = append(scripts[g], r.IntN(2) == 0)
		}
	}
	fail0 := func(sig string, extra rt.J) {
		extra["registry"], extra["goroutines"], extra["poll_period"] = pkg, nG, poll.String()
		rt.Violation("C20/"+pkg+"/concurrent/"+sig, idx, extra)
		rt.Flush()
		os.Exit(0)
	}
	// simultaneous Starts of a stopped registry (a spin barrier lets them go within nanoseconds of each other): one
	// poller, and the following Stop returns and leaves none
	for round := 0; round < 25; round++ {
		var ready, goNow atomic.Int32
		okR := withWatchdog(func() {
			var wg sync.WaitGroup
			for g := 0; g < nG+2; g++ {
				wg.Add(1)
				go func() {
					defer wg.Done()
					ready.Add(1)
					for goNow.Load() == 0 {
					}
					mr.Start()
				}()
			}
			for ready.Load() < int32(nG+2) {
				runtime.Gosched()
			}
			goNow.Store(1)
			wg.Wait()
			if got := settle(pkg, 1); got != 1 {
				fail0("simultaneous-starts-left-other-than-one-poller", rt.J{"pollers": got, "round": round})
			}
			mr.Stop()
		})
		if !okR {
			st := stacksOf("metric_registry/" + pkg)
			if strings.Contains(st, "sync.(*WaitGroup).Wait") || strings.Contains(st, "sync.(*Mutex).Lock") || strings.Contains(st, "chan send") {
				fail0("Stop-after-simultaneous-starts-never-returns", rt.J{"round": round, "stacks": st[:min(len(st), 4000)]})
			}
			rt.Inconclusive("C20 simultaneous Starts: watchdog fired without a registry goroutine blocked")
			rt.Flush()
			os.Exit(0)
		}
		if got := settle(pkg, 0); got != 0 {
			fail0("poller-alive-after-stop-following-simultaneous-starts", rt.J{"pollers": got, "round": round})
		}
		rt.Count("simultaneous_start_rounds", 1)
	}
	ok := withWatchdog(func() {
		var wg sync.WaitGroup
		for g := 0; g < nG; g++ {
			wg.Add(1)
			go func(g int) {
				defer wg.Done()
				for _, start := range scripts[g] {
					if start {
						mr.Start()
					} else {
						mr.Stop()
					}
					runtime.Gosched()
				}
			}(g)
		}
		wg.Wait()
		mr.Stop()
	})
	fail := func(sig string, extra rt.J) {
		extra["registry"], extra["goroutines"], extra["poll_period"] = pkg, nG, poll.String()
		rt.Violation("C20/"+pkg+"/concurrent/"+sig, idx, extra)
		rt.Flush()
		os.Exit(0)
	}
	if !ok {
		st := stacksOf("metric_registry/" + pkg)
		if strings.Contains(st, "sync.(*WaitGroup).Wait") && strings.Contains(st, ".run(") && strings.Contains(st, "sync.(*Mutex).Lock") {
			fail("Stop-deadlocks-with-poll-tick", rt.J{"stacks": st})
		}
		rt.Inconclusive("C20 concurrent Start/Stop did not finish within the watchdog; no wait-for cycle recognised")
		rt.Flush()
		os.Exit(0)
	}
	if got := settle(pkg, 0); got != 0 {
		fail("poller-alive-after-final-stop", rt.J{"pollers": got})
	}
	c1 := polls.Load()
	time.Sleep(6 * poll)
	if c2 := polls.Load(); c2 != c1 {
		fail("gauge-polled-after-final-stop", rt.J{"polls_before": c1, "polls_after": c2})
	}
	if closer != nil {
		closer()
	}
	rt.Count("concurrent_lifecycle_cases", 1)
	rt.Distinct(fmt.Sprintf("lifeconc|%s|%v", pkg, scripts))
}

// windowedDelegateDrops: an instrumented algorithm behind the windowed limit.  Every window the wrapper hands on is one
// processed sample of the delegate: its drop counter moves iff that window contained a drop - wherever in the window.
func windowedDelegateDrops(idx int64, r *rand.Rand) {
	reg := inject.NewRecRegistry()
	inner := limit.NewAIMDLimit("in", 20, 0.9, 1, reg)
	size := 10 + r.IntN(5)
	w, err := limit.NewWindowedLimit("w", 1e8, 1e8, int32(size), 0, inner, nil)
	if err != nil {
		panic(err)
	}
	idDrop := core.PrefixMetricWithName(core.MetricDropped, "in")
	idIF := core.PrefixMetricWithName(core.MetricInFlight, "in")
	now := int64(1e12)
	reg.Drain()
	windowHadDrop, windows := false, 0
	var tail []string
	for i := 0; i < 400+r.IntN(400); i++ {
		drop := r.IntN(12) == 0
		inflight := 1 + r.IntN(size)
		if r.IntN(4) == 0 {
			inflight = size + 1 + r.IntN(10) // enough to close a window once its period is over
		}
		now += 1 + r.Int64N(4e7)
		rtt := 1000 + r.Int64N(1e6)
		w.OnSample(now, rtt, inflight, drop)
		windowHadDrop = windowHadDrop || drop
		tail = append(tail, fmt.Sprintf("start=%d rtt=%d inflight=%d drop=%v", now, rtt, inflight, drop))
		drops, delivered := 0, 0
		for _, ev := range reg.Drain() {
			switch ev.ID {
			case idDrop:
				drops++
			case idIF:
				delivered++
			}
		}
		if delivered == 0 {
			continue
		}
		windows++
		rt.Count("windows_handed_to_an_instrumented_delegate", 1)
		if delivered != 1 || (drops == 1) != windowHadDrop || drops > 1 {
			rt.Violation("C20/windowed/delegate-drop-counter-disagrees-with-the-window", idx, rt.J{"window_size": size, "window_had_drop": windowHadDrop, "drop_counter_increments": drops,
				"windows_delivered_by_this_sample": delivered, "last_samples": tail[max(0, len(tail)-14):]})
			return
		}
		windowHadDrop = false
	}
	if windows > 1 {
		rt.Distinct(fmt.Sprintf("wdd|%d|%d", size, windows))
	}
}

// externalSetCase: a limiter over a limit that is moved from outside (SettableLimit.SetLimit).  Once a sample window has
// closed after a set, the limit gauge the algorithm publishes and the limit gauge the strategy publishes (what is
// enforced) report the same number - the new one.
func externalSetCase(idx int64, r *rand.Rand) {
	regL, regS := inject.NewRecRegistry(), inject.NewRecRegistry()
	sl := limit.NewSettableLimit("own", 1+r.IntN(20), regL)
	var st core.Strategy
	kind := "simple"
	if r.IntN(2) == 0 {
		st = strategy.NewSimpleStrategyWithMetricRegistry(1+r.IntN(20), regS)
	} else {
		st, kind = strategy.NewPreciseStrategyWithMetricRegistry(1+r.IntN(20), regS), "precise"
	}
	dl, err := limiter.NewDefaultLimiter(sl, 1, 1, 0, 10, st, limit.NoopLimitLogger{}, core.EmptyMetricRegistryInstance)
	if err != nil {
		panic(err)
	}
	var sets []int
	for step := 0; step < 5; step++ {
		v := 1 + r.IntN(20)
		sets = append(sets, v)
		sl.SetLimit(v)
		for i := 0; i < 40; i++ { // a whole window goes by
			l, ok := dl.Acquire(context.Background())
			if !ok {
				break
			}
			for k := 0; k < 50; k++ {
				runtime.Gosched()
			}
			l.OnSuccess()
		}
		gl, okL := regL.Gauge(core.PrefixMetricWithName(core.MetricLimit, "own"))
		gs, okS := regS.Gauge(core.MetricLimit)
		rt.Count("limit_gauges_compared_after_an_external_set", 1)
		if !okL || !okS || int(gl) != v || int(gs) != v {
			rt.Violation("C20/"+kind+"/limit-gauges-disagree-with-the-limit-set-from-outside-a-window-ago", idx, rt.J{"explicit_sets": sets,
				"algorithm_limit_gauge": gl, "strategy_limit_gauge(enforced)": gs, "registered": []bool{okL, okS}})
			return
		}
	}
	rt.Distinct(fmt.Sprintf("ext|%s|%v", kind, sets))
}

func TestCheck(t *testing.T) {
	rt.Cases(2400, 240000, func(idx int64) {
		r := rt.CaseRand(20, idx)
		rt.Case()
		switch m := idx % 24; {
		case idx%48 == 29:
			externalSetCase(idx, r)
		case idx%48 == 38:
			windowedDelegateDrops(idx, r)
		case idx%48 == 19:
			gaugePollCase(idx, r)
		case idx%48 == 17:
			queueGaugeDynamic(t, idx, r)
		case idx%48 == 37:
			limiterPathCase(t, idx, r)
		case idx%24 == 5:
			concurrentLimiterInflight(idx, r)
		case idx%96 == 43:
			addrCase(idx, r)
		case m == 0:
			concurrentStrategySamples(idx, r)
		case m < 6:
			strategyCase(idx, r)
		case m < 11:
			partitionCase(idx, r)
		case m < 17:
			limitCase(idx, r)
		case m < 18:
			queueGaugeCase(idx, r)
		case m < 21:
			forwardCase(idx, r)
		case m < 23:
			lifecycleCase(idx, r)
		default:
			lifecycleConcurrent(idx, r)
		}
	})
}
