// C18 — measurement primitives compute what they name, reset cleanly, report changes.
// Oracle shape: lock-step reference folds + twin-instance comparison after Reset + flag agreement.
package c18

import (
	"fmt"
	"hash/fnv"
	"math"
	"math/rand/v2"
	"runtime"
	"sync"
	"sync/atomic"
	"testing"

	"github.com/platinummonkey/go-concurrency-limits/core"
	"github.com/platinummonkey/go-concurrency-limits/measurements"

	"verifharness/internal/rt"
)

func TestMain(m *testing.M) { rt.Main(m) }

const relTol = 1e-9

type op struct {
	K string  // add | get | reset | update
	V float64 // sample for add, selector for update
}

type mk struct {
	kind string
	cfg  string
	new  func() core.MeasurementInterface
	// warm: number of leading samples for which the value must be the arithmetic mean (0 = none);
	hull       bool // value must stay in [min,max] of the samples since reset
	min        bool
	last       bool
	nonneg     bool
	flagTol    float64 // relative change of Get() below which the flag is not required
	warm       func() int
	aAvg, aVar float64 // variance: the two smoothing factors
}

func sample(r *rand.Rand, pool *[]float64) float64 {
	if len(*pool) > 0 && r.IntN(4) == 0 {
		return (*pool)[r.IntN(len(*pool))] // repeats: exercises "nothing changed"
	}
	var v float64
	switch r.IntN(4) {
	case 0:
		v = float64(1 + r.IntN(20))
	case 1:
		v = math.Exp2(r.Float64() * 50)
	case 2:
		v = math.Floor(math.Exp2(r.Float64() * 40))
		if v < 1 {
			v = 1
		}
	default:
		v = 1 + r.Float64()*1000
	}
	*pool = append(*pool, v)
	return v
}

func updateFn(sel float64) func(float64) float64 {
	switch int(sel) % 3 {
	case 0:
		return func(v float64) float64 { return v*0.9 + 1 }
	case 1:
		return func(v float64) float64 { return v + 3 }
	default:
		return func(v float64) float64 { return v*0.5 + 1 }
	}
}

func genKinds(r *rand.Rand) mk {
	switch r.IntN(6) {
	case 0:
		return mk{kind: "minimum", new: func() core.MeasurementInterface { return &measurements.MinimumMeasurement{} }, min: true}
	case 1:
		return mk{kind: "single", new: func() core.MeasurementInterface { return &measurements.SingleMeasurement{} }, last: true}
	case 2:
		w := 1 + r.IntN(60)
		if r.IntN(5) == 0 {
			w = 1 + r.IntN(1000)
		}
		wu := 1 + r.IntN(15) // warm-up >= 1: with 0 the average starts from 0, not from a sample (domain, DESIGN 8)
		return mk{kind: "expavg", cfg: fmt.Sprintf("window=%d warmup=%d", w, wu), hull: true,
			new:  func() core.MeasurementInterface { return measurements.NewExponentialAverageMeasurement(w, wu) },
			warm: func() int { return wu }}
	case 3:
		a := alpha(r)
		ms := int(math.Ceil(1 / a))
		return mk{kind: "sema", cfg: fmt.Sprintf("alpha=%g", a), hull: true,
			new: func() core.MeasurementInterface {
				m, err := measurements.NewSimpleExponentialMovingAverage(a)
				if err != nil {
					panic(err)
				}
				return m
			}, warm: func() int { return ms - 1 }}
	case 4:
		a, b := alpha(r), alpha(r)
		return mk{kind: "variance", cfg: fmt.Sprintf("alphaAvg=%g alphaVar=%g", a, b), nonneg: true, flagTol: 1e-9, aAvg: a, aVar: b,
			new: func() core.MeasurementInterface {
				m, err := measurements.NewSimpleMovingVariance(a, b)
				if err != nil {
					panic(err)
				}
				return m
			}}
	default:
		p := 0.05 + 0.9*r.Float64()
		d := []float64{0, 0.001, 0.01, 0.05, 1}[r.IntN(5)]
		a, b := alpha(r), alpha(r)
		return mk{kind: "percentile", cfg: fmt.Sprintf("p=%g delta=%g a=%g b=%g", p, d, a, b),
			new: func() core.MeasurementInterface {
				m, err := measurements.NewWindowlessMovingPercentile(p, d, a, b)
				if err != nil {
					panic(err)
				}
				return m
			}}
	}
}

func alpha(r *rand.Rand) float64 {
	switch r.IntN(4) {
	case 0:
		return 1
	case 1:
		return []float64{0.5, 0.25, 0.125, 0.05, 0.2, 0.1}[r.IntN(6)]
	default:
		return 0.01 + 0.99*r.Float64()
	}
}

func bits(f float64) uint64 {
	if f != f {
		return 0x7ff8000000000001
	}
	return math.Float64bits(f)
}

func genOps(r *rand.Rand, n int, withUpdate, withReset bool) []op {
	var pool []float64
	ops := make([]op, 0, n)
	for len(ops) < n {
		x := r.IntN(20)
		switch {
		case x < 13:
			ops = append(ops, op{"add", sample(r, &pool)})
		case x < 16:
			ops = append(ops, op{"get", 0})
		case x < 18 && withUpdate:
			ops = append(ops, op{"update", float64(r.IntN(3))})
		case x == 19 && withReset:
			ops = append(ops, op{"reset", 0})
		default:
			ops = append(ops, op{"add", sample(r, &pool)})
		}
	}
	return ops
}

func opsHash(ops []op) uint64 {
	h := fnv.New64a()
	for _, o := range ops {
		fmt.Fprintf(h, "%s%x;", o.K, bits(o.V))
	}
	return h.Sum64()
}

func head(ops []op) []op {
	if len(ops) > 14 {
		return ops[:14]
	}
	return ops
}

// lockstep runs ops on a fresh instance against the reference fold.
func lockstep(idx int64, m mk, ops []op) (changes int) {
	inst := m.new()
	var sinceReset []float64
	dirty := false // an Update happened since reset: value oracles are suspended (Update may move the value anywhere)
	lo, hi, sum := math.Inf(1), math.Inf(-1), 0.0
	viol := func(sig string, i int, extra rt.J) {
		extra["kind"], extra["cfg"], extra["op_index"], extra["ops_prefix"] = m.kind, m.cfg, i, ops[:i+1]
		if len(ops[:i+1]) > 60 {
			extra["ops_prefix"] = ops[i-59 : i+1]
		}
		rt.Violation("C18/"+m.kind+"/"+sig, idx, extra)
	}
	// the moving variance is, by its name, a moving average (alphaVariance) of the squared deviations of each sample from
	// the moving average (alphaAverage) of the samples before it: composed here from two public moving averages
	var refAvg, refVar core.MeasurementInterface
	newRef := func() {
		if m.kind == "variance" {
			refAvg, _ = measurements.NewSimpleExponentialMovingAverage(m.aAvg)
			refVar, _ = measurements.NewSimpleExponentialMovingAverage(m.aVar)
		}
	}
	newRef()
	for i, o := range ops {
		switch o.K {
		case "reset":
			inst.Reset()
			newRef()
			sinceReset, dirty = sinceReset[:0], false
			lo, hi, sum = math.Inf(1), math.Inf(-1), 0
			if g := inst.Get(); g != 0 {
				viol("get-after-reset-nonzero", i, rt.J{"get": g})
			}
		case "update":
			if m.min && !dirty {
				// the minimum's Update hands f(current) to Add: with a positive result it is one more sample
				before := inst.Get()
				fv := updateFn(o.V)(before)
				inst.Update(updateFn(o.V))
				if fv > 0 && !math.IsInf(fv, 0) && !math.IsNaN(fv) {
					sinceReset = append(sinceReset, fv)
					lo, hi = math.Min(lo, fv), math.Max(hi, fv)
					rt.Count("minimum_updates_modelled_as_a_sample", 1)
					if after := inst.Get(); after != lo {
						viol("not-minimum-since-reset/after-update", i, rt.J{"get": after, "want": lo, "update_result": fv, "before": before})
					}
					continue
				}
				dirty = true
				continue
			}
			inst.Update(updateFn(o.V))
			dirty = true
		case "get":
			inst.Get()
		case "add":
			before := inst.Get()
			if m.kind == "percentile" && i%5 == 3 && before > 0 {
				o.V = before // a sample exactly equal to the current estimate: neither above nor below it
				rt.Count("percentile_samples_equal_to_the_estimate", 1)
			}
			ret, flag := inst.Add(o.V)
			after := inst.Get()
			rt.Count("adds", 1)
			if m.kind == "percentile" && !dirty && len(sinceReset) > 0 {
				// a moving percentile steps towards what it is shown: up for a sample above it, down for one below, not at all
				// for a sample equal to it
				if (o.V > before && after < before) || (o.V < before && after > before) || (o.V == before && after != before) {
					viol("estimate-moved-away-from-the-sample", i, rt.J{"before": before, "sample": o.V, "after": after})
				}
				rt.Count("percentile_direction_checks", 1)
			}
			if math.IsNaN(after) || math.IsInf(after, 0) || math.IsNaN(ret) || math.IsInf(ret, 0) {
				viol("non-finite", i, rt.J{"get": fmt.Sprint(after), "ret": fmt.Sprint(ret)})
			}
			if bits(before) != bits(after) {
				changes++
				rel := math.Abs(after-before) / math.Max(math.Abs(before), math.Abs(after))
				// the moving variance's Update overwrites only its cached standard deviation, which Add's flag is computed
				// from: after an Update the flag is not judged for it until the next Reset (DESIGN 11.2)
				if !flag && rel > m.flagTol && !(dirty && m.flagTol > 0) {
					viol("flag-false-on-change", i, rt.J{"before": before, "after": after, "sample": o.V})
				}
				rt.Count("adds_changing_value", 1)
			} else {
				rt.Count("adds_not_changing_value", 1)
			}
			sinceReset = append(sinceReset, o.V)
			sum += o.V
			lo, hi = math.Min(lo, o.V), math.Max(hi, o.V)
			if dirty && m.kind == "expavg" && m.warm != nil && len(sinceReset) <= m.warm() {
				// warm-up of the exponential average: the reading after an Add is the arithmetic mean of the samples added since
				// the reset, whatever Update did to the value in between
				mean := sum / float64(len(sinceReset))
				if math.Abs(after-mean) > relTol*mean {
					viol("warmup-not-arithmetic-mean/after-an-update", i, rt.J{"get": after, "mean": mean, "n": len(sinceReset)})
				}
				rt.Count("warmup_mean_checks_after_an_update", 1)
			}
			if dirty {
				continue
			}
			n := len(sinceReset)
			if refVar != nil {
				if n > 1 {
					d := o.V - refAvg.Get()
					refVar.Add(d * d)
				}
				refAvg.Add(o.V)
				if want := refVar.Get(); math.Abs(after-want) > relTol*math.Max(math.Abs(want), 1e-300) {
					viol("variance-differs-from-the-moving-average-of-squared-deviations", i, rt.J{"get": after, "want": want, "n": n})
				}
				rt.Count("variance_model_checks", 1)
			}
			if m.min && after != lo {
				viol("not-minimum-since-reset", i, rt.J{"get": after, "want": lo})
			}
			if m.min && ret != after {
				viol("add-returns-other-than-get", i, rt.J{"get": after, "ret": ret})
			}
			if m.last && after != o.V {
				viol("not-latest", i, rt.J{"get": after, "want": o.V})
			}
			if m.nonneg && after < 0 {
				viol("negative-variance", i, rt.J{"get": after})
			}
			if m.hull {
				if m.warm != nil && n <= m.warm() {
					mean := sum / float64(n)
					if math.Abs(after-mean) > relTol*mean {
						viol("warmup-not-arithmetic-mean", i, rt.J{"get": after, "mean": mean, "n": n})
					}
					rt.Count("warmup_mean_checks", 1)
				}
				if after < lo*(1-relTol) || after > hi*(1+relTol) {
					viol("outside-hull", i, rt.J{"get": after, "min": lo, "max": hi})
				}
				rt.Count("hull_checks", 1)
			}
		}
	}
	return
}

type res struct {
	K string
	A uint64
	B bool
}

func apply(inst core.MeasurementInterface, ops []op) []res {
	out := make([]res, 0, len(ops))
	for _, o := range ops {
		switch o.K {
		case "add":
			v, f := inst.Add(o.V)
			out = append(out, res{"add", bits(v), f}, res{"get", bits(inst.Get()), false})
		case "get":
			out = append(out, res{"get", bits(inst.Get()), false})
		case "update":
			inst.Update(updateFn(o.V))
			out = append(out, res{"get", bits(inst.Get()), false})
		case "reset":
			inst.Reset()
			out = append(out, res{"get", bits(inst.Get()), false})
		}
	}
	return out
}

// twin: prefix; Reset; suffix on one instance must equal suffix on a fresh one, bit for bit.
func twin(idx int64, m mk, prefix, suffix []op) {
	a := m.new()
	apply(a, prefix)
	a.Reset()
	ra := apply(a, suffix)
	rb := apply(m.new(), suffix)
	rt.Count("reset_twin_pairs", 1)
	for i := range ra {
		if ra[i] != rb[i] {
			rt.Violation("C18/"+m.kind+"/reset-twin-differs", idx, rt.J{"kind": m.kind, "cfg": m.cfg,
				"prefix": head(prefix), "prefix_len": len(prefix), "suffix": head(suffix), "first_difference_at_result": i,
				"after_reset": fmt.Sprintf("%s value=%v flag=%v", ra[i].K, math.Float64frombits(ra[i].A), ra[i].B),
				"fresh":       fmt.Sprintf("%s value=%v flag=%v", rb[i].K, math.Float64frombits(rb[i].A), rb[i].B)})
			return
		}
	}
}

type wsample struct {
	Drop     bool
	RTT      int64
	InFlight int
}

func windowCase(idx int64, r *rand.Rand) {
	n := 1 + r.IntN(40)
	ss := make([]wsample, n)
	for i := range ss {
		ss[i] = wsample{Drop: r.IntN(5) == 0, RTT: 1 + r.Int64N(1<<uint(1+r.IntN(40))), InFlight: r.IntN(200)}
	}
	fold := func(order []int) (*measurements.ImmutableSampleWindow, bool) {
		w := measurements.NewImmutableSampleWindow(5, 0, 0, 0, 0, false)
		ok := true
		for _, k := range order {
			s := ss[k]
			b := [5]any{w.CandidateRTTNanoseconds(), w.AverageRTTNanoseconds(), w.MaxInFlight(), w.SampleCount(), w.DidDrop()}
			var nw *measurements.ImmutableSampleWindow
			if s.Drop {
				nw = w.AddDroppedSample(7, s.InFlight)
			} else {
				nw = w.AddSample(7, s.RTT, s.InFlight)
			}
			a := [5]any{w.CandidateRTTNanoseconds(), w.AverageRTTNanoseconds(), w.MaxInFlight(), w.SampleCount(), w.DidDrop()}
			if a != b || nw == w {
				ok = false
			}
			w = nw
		}
		return w, ok
	}
	id := make([]int, n)
	for i := range id {
		id[i] = i
	}
	w1, imm := fold(id)
	if !imm {
		rt.Violation("C18/window/receiver-mutated", idx, rt.J{"samples": ss})
	}
	// reference fold
	minR, sum, cnt, maxIF, drop := int64(math.MaxInt64), int64(0), 0, 0, false
	for _, s := range ss {
		if s.Drop {
			drop = true
		} else {
			cnt++
			sum += s.RTT
			if s.RTT < minR {
				minR = s.RTT
			}
		}
		if s.InFlight > maxIF {
			maxIF = s.InFlight
		}
	}
	avg := int64(0)
	if cnt > 0 {
		avg = sum / int64(cnt)
	}
	got := [5]any{w1.CandidateRTTNanoseconds(), w1.AverageRTTNanoseconds(), w1.MaxInFlight(), w1.SampleCount(), w1.DidDrop()}
	want := [5]any{minR, avg, maxIF, cnt, drop}
	if got != want {
		rt.Violation("C18/window/fold-mismatch", idx, rt.J{"samples": ss, "got(min,avg,maxInFlight,count,drop)": got, "want": want})
	}
	perm := r.Perm(n)
	w2, _ := fold(perm)
	got2 := [5]any{w2.CandidateRTTNanoseconds(), w2.AverageRTTNanoseconds(), w2.MaxInFlight(), w2.SampleCount(), w2.DidDrop()}
	if got2 != got {
		rt.Violation("C18/window/order-dependent", idx, rt.J{"samples": ss, "perm": perm, "in_order": got, "permuted": got2})
	}
	rt.Count("window_folds", 2)
	if n >= 2 {
		rt.Distinct(fmt.Sprintf("window|%v", ss))
	}
	if rt.WantSample() && idx%7 == 0 {
		rt.Sample(rt.J{"kind": "window", "samples": ss, "fold": got})
	}
}

// concurrentMinimum: several goroutines Add to one MinimumMeasurement at the same moment; at quiescence Get must be the
// minimum of everything added (each Add is atomic in correct code, so the order cannot matter).
func concurrentMinimum(idx int64, r *rand.Rand) {
	for round := 0; round < 40; round++ {
		if !concurrentMinimumRound(idx, r) {
			return
		}
	}
}

func concurrentMinimumRound(idx int64, r *rand.Rand) bool {
	m := &measurements.MinimumMeasurement{}
	m.Add(1e12)
	n := 2 + r.IntN(7)
	vals := make([]float64, n)
	lo := 1e18
	for i := range vals {
		vals[i] = float64(10 + r.IntN(100000))
		if vals[i] < lo {
			lo = vals[i]
		}
	}
	var start, wg sync.WaitGroup
	start.Add(1)
	var ready atomic.Int32
	for i := range vals {
		wg.Add(1)
		go func(v float64) {
			defer wg.Done()
			ready.Add(1)
			for ready.Load() < int32(n) {
				runtime.Gosched()
			}
			m.Add(v)
		}(vals[i])
	}
	start.Done()
	wg.Wait()
	rt.Count("concurrent_minimum_rounds", 1)
	if got := m.Get(); got != lo {
		rt.Violation("C18/minimum/not-minimum-after-concurrent-adds", idx, rt.J{"added_concurrently": vals, "get": got, "want": lo})
		return false
	}
	rt.Distinct(fmt.Sprintf("concmin|%v", vals))
	return true
}

// varianceAlphaEffect (metamorphic): two moving variances that differ only in alphaVariance must not report the same
// variance throughout a varied sample sequence - the parameter that names the variance's smoothing has to matter.
func varianceAlphaEffect(idx int64, r *rand.Rand) {
	as := []float64{0.05, 0.1, 0.25, 0.5, 0.9}
	a := as[r.IntN(len(as))]
	i1 := r.IntN(len(as))
	i2 := (i1 + 1 + r.IntN(len(as)-1)) % len(as)
	v1, err1 := measurements.NewSimpleMovingVariance(a, as[i1])
	v2, err2 := measurements.NewSimpleMovingVariance(a, as[i2])
	if err1 != nil || err2 != nil {
		panic("variance ctor")
	}
	differ := false
	var xs []float64
	for i := 0; i < 40; i++ {
		x := 1 + r.Float64()*1000
		xs = append(xs, x)
		v1.Add(x)
		v2.Add(x)
		if v1.Get() != v2.Get() {
			differ = true
		}
	}
	rt.Count("variance_alpha_twin_pairs", 1)
	if !differ {
		rt.Violation("C18/variance/alpha-variance-has-no-effect", idx, rt.J{"alpha_average": a, "alpha_variance_1": as[i1], "alpha_variance_2": as[i2],
			"samples_head": xs[:8], "final_get": v1.Get()})
		return
	}
	rt.Distinct(fmt.Sprintf("varalpha|%g|%g|%g|%g", a, as[i1], as[i2], xs[0]))
}

// concurrentSingleUpdate: Update is a read-modify-write of the stored value; N goroutines x K increments must add up.
func concurrentSingleUpdate(idx int64, r *rand.Rand) {
	m := &measurements.SingleMeasurement{}
	n, k := 2+r.IntN(7), 50+r.IntN(200)
	var wg sync.WaitGroup
	var ready atomic.Int32
	for g := 0; g < n; g++ {
		wg.Add(1)
		go func() {
			defer wg.Done()
			ready.Add(1)
			for ready.Load() < int32(n) {
				runtime.Gosched()
			}
			for i := 0; i < k; i++ {
				m.Update(func(v float64) float64 { return v + 1 })
			}
		}()
	}
	wg.Wait()
	rt.Count("concurrent_single_update_rounds", 1)
	if got := m.Get(); got != float64(n*k) {
		rt.Violation("C18/single/concurrent-updates-lost", idx, rt.J{"goroutines": n, "increments_each": k, "get": got, "want": n * k})
		return
	}
	rt.Distinct(fmt.Sprintf("concsingle|%d|%d", n, k))
}

// concurrentReset: Reset and Add on one instance at the same moment.  Each is atomic in correct code, so afterwards the
// instance is indistinguishable from one of the two serial orders - a new instance that was handed the sample, or a
// new instance - bit for bit, for every later operation.
func concurrentReset(idx int64, r *rand.Rand) {
	m := genKinds(r)
	suffix := genOps(r, 3+r.IntN(10), false, false)
	rounds := 300
	for round := 0; round < rounds; round++ {
		inst := m.new()
		apply(inst, genOps(r, 1+r.IntN(12), false, false))
		x := float64(1 + r.IntN(1000))
		var wg sync.WaitGroup
		if round%2 == 0 {
			bar := make(chan struct{})
			wg.Add(2)
			go func() { defer wg.Done(); <-bar; inst.Reset() }()
			go func() { defer wg.Done(); <-bar; inst.Add(x) }()
			close(bar)
		} else {
			// Update runs the caller's function under the instance lock: while an identity update is in progress (and
			// yields), Reset and Add arrive - in either order - and queue up behind it
			var started atomic.Int32
			inside := make(chan struct{})
			wg.Add(3)
			go func() {
				defer wg.Done()
				inst.Update(func(v float64) float64 {
					close(inside)
					for i := 0; i < 400 && started.Load() < 2; i++ {
						runtime.Gosched()
					}
					for i := 0; i < 20; i++ {
						runtime.Gosched()
					}
					return v
				})
			}()
			<-inside
			first, second := func() { inst.Reset() }, func() { inst.Add(x) }
			if round%4 == 1 {
				first, second = second, first
			}
			go func() { defer wg.Done(); started.Add(1); first() }()
			for i := 0; i < 5; i++ {
				runtime.Gosched()
			}
			go func() { defer wg.Done(); started.Add(1); second() }()
		}
		wg.Wait()
		got := apply(inst, suffix)
		t1 := m.new()
		t1.Add(x)
		w1 := apply(t1, suffix)
		w2 := apply(m.new(), suffix)
		eq := func(a, b []res) bool {
			for i := range a {
				if a[i] != b[i] {
					return false
				}
			}
			return true
		}
		rt.Count("concurrent_reset_rounds", 1)
		if !eq(got, w1) && !eq(got, w2) {
			rt.Violation("C18/"+m.kind+"/concurrent/reset-overlapping-add-leaves-a-state-neither-order-explains", idx, rt.J{"kind": m.kind, "cfg": m.cfg, "sample": x, "round": round,
				"suffix": head(suffix), "first_reading": math.Float64frombits(got[0].A), "after_reset_then_add": math.Float64frombits(w1[0].A), "after_add_then_reset": math.Float64frombits(w2[0].A)})
			return
		}
	}
	rt.Distinct(fmt.Sprintf("creset|%s|%s|%x", m.kind, m.cfg, opsHash(suffix)))
}

func TestCheck(t *testing.T) {
	rt.Cases(30000, 3000000, func(idx int64) {
		r := rt.CaseRand(18, idx)
		rt.Case()
		if idx%24 == 2 {
			concurrentReset(idx, r)
			return
		}
		if idx%6 == 5 {
			windowCase(idx, r)
			return
		}
		if idx%12 == 4 {
			concurrentMinimum(idx, r)
			return
		}
		if idx%24 == 10 {
			varianceAlphaEffect(idx, r)
			return
		}
		if idx%24 == 22 {
			concurrentSingleUpdate(idx, r)
			return
		}
		m := genKinds(r)
		n := 5 + r.IntN(120)
		if idx%2 == 0 {
			ops := genOps(r, n, r.IntN(3) == 0, true)
			ch := lockstep(idx, m, ops)
			if ch > 0 {
				rt.Distinct(fmt.Sprintf("lockstep|%s|%s|%x", m.kind, m.cfg, opsHash(ops)))
			}
			rt.Count("lockstep_cases/"+m.kind, 1)
			if rt.WantSample() && idx%50 == 0 {
				rt.Sample(rt.J{"mode": "lockstep", "kind": m.kind, "cfg": m.cfg, "ops_head": head(ops), "ops": len(ops), "value_changes": ch})
			}
		} else {
			prefix := genOps(r, 1+r.IntN(60), r.IntN(2) == 0, r.IntN(3) == 0)
			suffix := genOps(r, 2+r.IntN(40), r.IntN(2) == 0, r.IntN(4) == 0)
			twin(idx, m, prefix, suffix)
			rt.Distinct(fmt.Sprintf("twin|%s|%s|%x|%x", m.kind, m.cfg, opsHash(prefix), opsHash(suffix)))
			rt.Count("twin_cases/"+m.kind, 1)
			if rt.WantSample() && idx%51 == 0 {
				rt.Sample(rt.J{"mode": "reset-twin", "kind": m.kind, "cfg": m.cfg, "prefix_head": head(prefix), "suffix_head": head(suffix)})
			}
		}
	})
}
