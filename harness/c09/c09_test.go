// C09 — sampling windows: the algorithm sees each window once, aggregated exactly.
// DefaultLimiter is driven sequentially inside a synctest bubble (exact virtual RTTs and window boundaries);
// WindowedLimit needs no clock (start time and rtt are arguments).  A recording core.Limit is the delegate.
package c09

import (
	"context"
	"fmt"
	"math"
	"math/rand/v2"
	"runtime"
	"sync"
	"sync/atomic"
	"testing"
	"testing/synctest"
	"time"

	"github.com/platinummonkey/go-concurrency-limits/core"
	"github.com/platinummonkey/go-concurrency-limits/limit"
	"github.com/platinummonkey/go-concurrency-limits/limiter"
	"github.com/platinummonkey/go-concurrency-limits/strategy"

	"verifharness/internal/inject"
	"verifharness/internal/limgen"
	"verifharness/internal/rt"
)

func TestMain(m *testing.M) { rt.Main(m) }

type fold struct {
	MinRTT  int64 `json:"min_rtt"`
	Sum     int64 `json:"sum_rtt"`
	Count   int   `json:"successes"`
	MaxIF   int   `json:"max_inflight"`
	Drop    bool  `json:"drop"`
	Samples int   `json:"qualifying_completions"`
}

func newFold() fold { return fold{MinRTT: math.MaxInt64} }

func (f *fold) success(rtt int64, inflight int) {
	f.Samples++
	f.Count++
	f.Sum += rtt
	if rtt < f.MinRTT {
		f.MinRTT = rtt
	}
	if inflight > f.MaxIF {
		f.MaxIF = inflight
	}
}
func (f *fold) drop(inflight int) {
	f.Samples++
	f.Drop = true
	if inflight > f.MaxIF {
		f.MaxIF = inflight
	}
}

func clampPeriod(minRTT, minW, maxW int64) int64 {
	p := minRTT * 2
	if p < minW {
		p = minW
	}
	if p > maxW {
		p = maxW
	}
	return p
}

func dur(r *rand.Rand) time.Duration {
	switch r.IntN(5) {
	case 0:
		return time.Duration(1 + r.IntN(50))
	case 1:
		return time.Duration(1+r.IntN(1000)) * time.Microsecond
	default:
		return time.Duration(math.Exp2(r.Float64() * 23)) // 1ns .. ~8ms
	}
}

type held struct {
	l        core.Listener
	at       time.Time
	inflight int
}

func defaultLimiterCase(t *testing.T, idx int64, r *rand.Rand) {
	windowSize := 10 + r.IntN(21)
	minW := int64(math.Exp2(10 + r.Float64()*20)) // ~1us .. 1s
	maxW := minW * int64(1+r.IntN(8))
	thr := []int64{0, 0, 10, 1000, 100000, 1000000}[r.IntN(6)]
	// steady style: many holders released at a constant pace, so that every RTT is about holders x gap and the window
	// period is decided by 2 x minRTT (strictly between the configured minimum and maximum window)
	steady := r.IntN(3) == 0
	steadyHolders, steadyGap := 12+r.IntN(30), time.Duration(1000+r.IntN(1000000))
	if steady {
		rttApprox := int64(steadyHolders) * int64(steadyGap)
		minW = rttApprox/2 + 1
		maxW = minW * 8
		thr = 0
	}
	cfg := rt.J{"limiter": "default", "window_size": windowSize, "min_window_ns": minW, "max_window_ns": maxW, "min_rtt_threshold_ns": thr}
	rec := inject.NewScriptedLimit(100, func(n int) int { return 60 + (n*7)%40 })
	st := strategy.NewSimpleStrategy(100)
	// the algorithm may sit behind the tracing decorator (with a debug-enabled logger in half of those cases): what it
	// receives is still exactly the fold
	var algo core.Limit = rec
	if tr := r.IntN(4); tr < 2 {
		var lg limit.Logger = limit.NoopLimitLogger{}
		if tr == 0 {
			lg = limgen.DebugLogger{}
		}
		algo = limit.NewTracedLimit(rec, lg)
		rt.Count("default_limiter_cases_with_the_algorithm_behind_a_traced_limit", 1)
	}
	dl, err := limiter.NewDefaultLimiter(algo, minW, maxW, thr, windowSize, st, limit.NoopLimitLogger{}, core.EmptyMetricRegistryInstance)
	if err != nil {
		panic(err)
	}
	// the limiter is used directly or through one of the wrappers (their listeners forward the outcome; the limit of 100
	// is never reached, so nobody ever blocks)
	var lim core.Limiter = dl
	wrapper := []string{"", "", "queue-fifo", "queue-lifo", "fifo-deprecated", "lifo-deprecated", "blocking", "deadline"}[r.IntN(8)]
	cfg["wrapper"] = wrapper
	nops := 150 + r.IntN(500)
	if steady {
		nops += 600
	}
	pIgnore, pDrop := []float64{0, 0.1, 0.3}[r.IntN(3)], []float64{0, 0.03, 0.2, 1}[r.IntN(4)]
	var log []string
	deliveries, midDrops := 0, 0
	bubble(t, func(t *testing.T) {
		switch wrapper {
		case "queue-fifo":
			lim = limiter.NewQueueBlockingLimiterFromConfig(dl, limiter.QueueLimiterConfig{Ordering: limiter.OrderingFIFO})
		case "queue-lifo":
			lim = limiter.NewQueueBlockingLimiterFromConfig(dl, limiter.QueueLimiterConfig{Ordering: limiter.OrderingLIFO, BacklogEvictDoneCtx: true})
		case "fifo-deprecated":
			lim = limiter.NewFifoBlockingLimiterWithDefaults(dl)
		case "lifo-deprecated":
			lim = limiter.NewLifoBlockingLimiterWithDefaults(dl)
		case "blocking":
			lim = limiter.NewBlockingLimiter(dl, 0, nil)
		case "deadline":
			lim = limiter.NewDeadlineLimiter(dl, time.Now().Add(10000*time.Hour), nil)
		}
		if wrapper != "" {
			rt.Count("default_limiter_cases_through_a_wrapper", 1)
		}
		f := newFold()
		var nextUpdate int64 // model of the earliest instant after which the next delivery may happen
		var hs []held
		maxHold := 1 + r.IntN(6)
		if steady {
			maxHold = steadyHolders
		}
		fail := func(sig string, extra rt.J) {
			extra["config"] = cfg
			lo := len(log) - 30
			if lo < 0 {
				lo = 0
			}
			extra["completions_tail"], extra["fold_since_last_delivery"] = log[lo:], f
			rt.Violation("C09/default/"+sig, idx, extra)
		}
		for i := 0; i < nops; i++ {
			if len(hs) < maxHold && (len(hs) == 0 || steady || r.IntN(2) == 0) {
				l, ok := lim.Acquire(context.Background())
				if !ok {
					fail("harness-acquire-refused", rt.J{})
					return
				}
				hs = append(hs, held{l, time.Now(), len(hs) + 1})
				continue
			}
			if steady {
				time.Sleep(steadyGap)
			} else {
				time.Sleep(dur(r))
			}
			k := r.IntN(len(hs))
			if steady {
				k = 0 // oldest first: RTTs stay close to holders x gap
			}
			h := hs[k]
			hs = append(hs[:k], hs[k+1:]...)
			now := time.Now()
			rtt := now.Sub(h.at).Nanoseconds()
			before := rec.Count()
			x := r.Float64()
			outcome := "success"
			switch {
			case x < pIgnore:
				outcome = "ignore"
				h.l.OnIgnore()
			case x < pIgnore+pDrop:
				outcome = "dropped"
				h.l.OnDropped()
			default:
				h.l.OnSuccess()
			}
			delivered := rec.Count() - before
			log = append(log, fmt.Sprintf("t=%d %s rtt=%d inflight=%d delivered=%d", now.UnixNano(), outcome, rtt, h.inflight, delivered))
			rt.Count("default_completions", 1)
			qualifying := outcome == "dropped" || (outcome == "success" && rtt >= thr)
			if !qualifying {
				rt.Count("default_nonqualifying_completions", 1)
				if delivered != 0 {
					fail("delivery-triggered-by-non-qualifying-completion", rt.J{"outcome": outcome, "rtt": rtt})
					return
				}
				continue
			}
			if outcome == "dropped" {
				if f.Samples > 0 {
					midDrops++
				}
				f.drop(h.inflight)
			} else {
				f.success(rtt, h.inflight)
			}
			ready := f.Count > 0 && f.Count > windowSize
			due := now.UnixNano() > nextUpdate
			if delivered > 1 {
				fail("more-than-one-delivery-per-completion", rt.J{"count": delivered})
				return
			}
			if delivered == 1 {
				s, _ := rec.Last()
				deliveries++
				rt.Count("default_windows_delivered", 1)
				if !ready {
					fail("delivered-unready-window", rt.J{"delivered": s})
					return
				}
				if !due {
					fail("delivered-before-window-period-elapsed", rt.J{"delivered": s, "now": now.UnixNano(), "next_update_not_before": nextUpdate})
					return
				}
				if s.RTT != f.MinRTT || s.InFlight != f.MaxIF || s.Drop != f.Drop {
					fail("delivered-values-differ-from-fold", rt.J{"delivered": s})
					return
				}
				if got := st.GetLimit(); got != max1(s.EstAfter) {
					fail("strategy-limit-not-updated-with-delivery", rt.J{"strategy_limit": got, "estimate": s.EstAfter})
					return
				}
				nextUpdate = now.UnixNano() + clampPeriod(f.MinRTT, minW, maxW)
				f = newFold()
			} else if ready && due {
				fail("ready-window-not-delivered", rt.J{"now": now.UnixNano(), "next_update_not_before": nextUpdate})
				return
			}
		}
		for _, h := range hs {
			h.l.OnIgnore()
		}
	})
	rt.Count("default_cases", 1)
	if steady {
		rt.Count("default_cases_with_period_decided_by_twice_the_min_rtt", 1)
	}
	rt.Count("default_windows_with_drop_before_last_completion", int64(midDrops))
	if deliveries >= 2 {
		rt.Distinct(fmt.Sprintf("default|%v|%d|%d", cfg, nops, deliveries))
	}
	if rt.WantSample() && idx%40 == 0 && len(log) > 12 {
		rt.Sample(rt.J{"config": cfg, "completions_head": log[:12], "completions": len(log), "windows_delivered": deliveries})
	}
}

// ---- simultaneous completions -------------------------------------------------------------------------------
// Several completions of one limiter happen at the same virtual instant from different goroutines (with a yield at
// the verif point before the update lock).  The pending window is then only known up to the order in which the
// completions were folded, so the monitor keeps the set of candidate pending folds.  A delivery is legal iff it
// equals candidate + some non-empty subset of the simultaneous completions, with more than windowSize successes;
// what was not part of the delivered window may or may not survive the reset.

type cand struct {
	f fold
}

type comp struct {
	drop     bool
	rtt      int64
	inflight int
}

func addTo(f fold, c comp) fold {
	if c.drop {
		f.drop(c.inflight)
	} else {
		f.success(c.rtt, c.inflight)
	}
	return f
}

func simultaneousCase(t *testing.T, idx int64, r *rand.Rand) {
	windowSize := 10 + r.IntN(4)
	rec := inject.NewScriptedLimit(100, func(n int) int { return 60 + (n*7)%40 })
	st := strategy.NewSimpleStrategy(100)
	dl, err := limiter.NewDefaultLimiter(rec, 1, 1, 0, windowSize, st, limit.NoopLimitLogger{}, core.EmptyMetricRegistryInstance)
	if err != nil {
		panic(err)
	}
	yields := []int{0, 20, 300}[r.IntN(3)]
	limiter.SetVerifHook(func(name string) {
		if name == "default.before_update" {
			for i := 0; i < yields; i++ {
				runtime.Gosched()
			}
		}
	})
	defer limiter.SetVerifHook(nil)
	var log []string
	deliveries, simRounds, boundary := 0, 0, 0
	bubble(t, func(t *testing.T) {
		cands := []fold{newFold()}
		fail := func(sig string, extra rt.J) {
			extra["window_size"], extra["rounds_tail"], extra["candidate_pending_folds"] = windowSize, log[max(0, len(log)-25):], cands
			rt.Violation("C09/default/simultaneous/"+sig, idx, extra)
		}
		for round := 0; round < 60+r.IntN(120); round++ {
			k := 1
			if r.IntN(3) == 0 {
				k = 2 + r.IntN(2)
			}
			// acquire k tokens at staggered instants so that their RTTs differ
			type tok struct {
				l  core.Listener
				at time.Time
				n  int
			}
			var toks []tok
			for i := 0; i < k; i++ {
				l, ok := dl.Acquire(context.Background())
				if !ok {
					fail("harness-acquire-refused", rt.J{})
					return
				}
				toks = append(toks, tok{l, time.Now(), i + 1})
				time.Sleep(time.Duration(1 + r.IntN(50)))
			}
			time.Sleep(time.Duration(2 + r.IntN(1000)))
			now := time.Now()
			comps := make([]comp, k)
			for i, tk := range toks {
				comps[i] = comp{drop: r.IntN(6) == 0, rtt: now.Sub(tk.at).Nanoseconds(), inflight: tk.n}
			}
			before := rec.Count()
			if k == 1 {
				if comps[0].drop {
					toks[0].l.OnDropped()
				} else {
					toks[0].l.OnSuccess()
				}
			} else {
				simRounds++
				var wg sync.WaitGroup
				var ready atomic.Int32
				for i := range toks {
					wg.Add(1)
					go func(i int) {
						defer wg.Done()
						ready.Add(1)
						for ready.Load() < int32(k) {
							runtime.Gosched()
						}
						if comps[i].drop {
							toks[i].l.OnDropped()
						} else {
							toks[i].l.OnSuccess()
						}
					}(i)
				}
				wg.Wait()
			}
			synctest.Wait()
			delivered := rec.Count() - before
			log = append(log, fmt.Sprintf("t=%d completions=%+v delivered=%d", now.UnixNano(), comps, delivered))
			rt.Count("simultaneous_rounds_completions", int64(k))
			if delivered > 1 {
				fail("more-than-one-delivery-at-one-instant", rt.J{"count": delivered})
				return
			}
			// all ways the round can have been folded
			var next []fold
			legal := false
			var d inject.RecSample
			if delivered == 1 {
				d, _ = rec.Last()
			}
			for _, c := range cands {
				if c.Count+countSucc(comps) == windowSize+1 && k > 1 {
					boundary++
				}
				if delivered == 0 {
					all := c
					for _, x := range comps {
						all = addTo(all, x)
					}
					if !(all.Count > windowSize) { // a ready window would have had to be delivered
						next = append(next, all)
					}
					continue
				}
				for mask := 1; mask < 1<<k; mask++ {
					f := c
					for i, x := range comps {
						if mask&(1<<i) != 0 {
							f = addTo(f, x)
						}
					}
					if f.Count > windowSize && f.Count > 0 && d.RTT == f.MinRTT && d.InFlight == f.MaxIF && d.Drop == f.Drop {
						legal = true
						// what was not part of the delivered window is pending in the next one - all of it: a completion is
						// folded into exactly one window, it is never wiped by the reset another completion's update performs
						rest := (1<<k - 1) &^ mask
						g := newFold()
						for i, x := range comps {
							if rest&(1<<i) != 0 {
								g = addTo(g, x)
							}
						}
						next = append(next, g)
					}
				}
			}
			if delivered == 1 {
				deliveries++
				rt.Count("simultaneous_windows_delivered", 1)
				if !legal {
					fail("delivered-window-is-no-fold-of-a-ready-window", rt.J{"delivered": d, "completions_at_this_instant": comps})
					return
				}
			} else if len(next) == 0 {
				fail("ready-window-not-delivered", rt.J{"completions_at_this_instant": comps})
				return
			}
			cands = dedupe(next)
		}
	})
	rt.Count("simultaneous_cases", 1)
	rt.Count("simultaneous_rounds", int64(simRounds))
	rt.Count("simultaneous_rounds_at_the_readiness_boundary", int64(boundary))
	if deliveries >= 2 {
		rt.Distinct(fmt.Sprintf("sim|%d|%d|%d|%v", windowSize, yields, deliveries, log[len(log)-1]))
	}
}

func countSucc(cs []comp) int {
	n := 0
	for _, c := range cs {
		if !c.drop {
			n++
		}
	}
	return n
}

func dedupe(fs []fold) []fold {
	seen := map[fold]bool{}
	var out []fold
	for _, f := range fs {
		if !seen[f] {
			seen[f] = true
			out = append(out, f)
		}
	}
	return out
}

func max1(v int) int {
	if v < 1 {
		return 1
	}
	return v
}

type wsample struct {
	Start    int64 `json:"start"`
	RTT      int64 `json:"rtt"`
	InFlight int   `json:"inflight"`
	Drop     bool  `json:"drop"`
}

func windowedCase(idx int64, r *rand.Rand) {
	windowSize := int32(10 + r.IntN(15))
	minW := int64(1e8) * int64(1+r.IntN(5))
	maxW := minW * int64(1+r.IntN(4))
	thr := []int64{0, 1000, 1000000, 50000000}[r.IntN(4)]
	cfg := rt.J{"limiter": "windowed", "window_size": windowSize, "min_window_ns": minW, "max_window_ns": maxW, "min_rtt_threshold_ns": thr}
	rec := inject.NewScriptedLimit(20, func(n int) int { return 10 + n%15 })
	var algo core.Limit = rec
	if tr := r.IntN(4); tr < 2 {
		var lg limit.Logger = limit.NoopLimitLogger{}
		if tr == 0 {
			lg = limgen.DebugLogger{}
		}
		algo = limit.NewTracedLimit(rec, lg)
		rt.Count("windowed_cases_with_the_algorithm_behind_a_traced_limit", 1)
	}
	w, err := limit.NewWindowedLimit("c09", minW, maxW, windowSize, thr, algo, nil)
	if err != nil {
		panic(err)
	}
	n := 100 + r.IntN(500)
	pDrop := []float64{0, 0.05, 0.3, 1}[r.IntN(4)]
	now := int64(1e15)
	f := newFold()
	var nextLo, nextHi int64 // a drop-only window has no candidate RTT: its period may be anything in [minW,maxW]
	var hist []wsample
	deliveries, midDrops := 0, 0
	fail := func(sig string, extra rt.J) {
		extra["config"] = cfg
		lo := len(hist) - 25
		if lo < 0 {
			lo = 0
		}
		extra["samples_tail"], extra["fold_since_last_delivery"] = hist[lo:], f
		rt.Violation("C09/windowed/"+sig, idx, extra)
	}
	for i := 0; i < n; i++ {
		if r.IntN(60) == 0 {
			pDrop = []float64{0, 0.05, 0.3, 1}[r.IntN(4)]
		}
		now += r.Int64N(minW / 3)
		s := wsample{Start: now, RTT: int64(math.Exp2(r.Float64() * 30)), InFlight: r.IntN(3 * int(windowSize)), Drop: r.Float64() < pDrop}
		if r.IntN(10) == 0 {
			s.RTT = thr - 1 + r.Int64N(3) // around the threshold
			if s.RTT < 1 {
				s.RTT = 1 // durations >= 1 ns: a 0 ns RTT is read as "unset" by the sample window (DESIGN 8)
			}
		}
		hist = append(hist, s)
		before := rec.Count()
		w.OnSample(s.Start, s.RTT, s.InFlight, s.Drop)
		delivered := rec.Count() - before
		rt.Count("windowed_samples", 1)
		if s.RTT < thr {
			rt.Count("windowed_samples_below_threshold", 1)
			if delivered != 0 {
				fail("delivery-triggered-by-sample-below-threshold", rt.J{})
				return
			}
			continue
		}
		if s.Drop {
			if f.Samples > 0 {
				midDrops++
			}
			f.drop(s.InFlight)
		} else {
			f.success(s.RTT, s.InFlight)
		}
		end := s.Start + s.RTT
		ready := int32(s.InFlight) > windowSize // the readiness rule of the windowed limit (pinned by the existing suite)
		if delivered > 1 {
			fail("more-than-one-delivery-per-sample", rt.J{"count": delivered})
			return
		}
		if delivered == 1 {
			d, _ := rec.Last()
			deliveries++
			rt.Count("windowed_windows_delivered", 1)
			if !ready {
				fail("delivered-unready-window", rt.J{"delivered": d})
				return
			}
			if end <= nextLo {
				fail("delivered-before-window-period-elapsed", rt.J{"delivered": d, "end": end, "next_update_not_before": nextLo})
				return
			}
			avg := int64(0)
			if f.Count > 0 {
				avg = f.Sum / int64(f.Count)
			}
			if d.RTT != avg || d.InFlight != f.MaxIF {
				fail("delivered-values-differ-from-fold", rt.J{"delivered": d, "want_avg_rtt": avg})
				return
			}
			if d.Drop != f.Drop {
				fail("delivered-drop-flag-differs-from-window", rt.J{"delivered": d, "window_had_drop": f.Drop, "closing_sample_drop": s.Drop})
				return
			}
			if f.Count > 0 {
				p := clampPeriod(f.MinRTT, minW, maxW)
				nextLo, nextHi = end+p, end+p
			} else {
				nextLo, nextHi = end+minW, end+maxW
				rt.Count("windowed_drop_only_windows_delivered", 1)
			}
			f = newFold()
		} else if ready && end > nextHi {
			fail("ready-window-not-delivered", rt.J{"end": end, "next_update_not_before": nextHi})
			return
		}
	}
	rt.Count("windowed_cases", 1)
	rt.Count("windowed_windows_with_drop_before_last_sample", int64(midDrops))
	if deliveries >= 2 {
		rt.Distinct(fmt.Sprintf("windowed|%v|%d|%d|%d", cfg, n, deliveries, hist[n/2].RTT))
	}
	if rt.WantSample() && idx%41 == 1 {
		rt.Sample(rt.J{"config": cfg, "samples_head": hist[:8], "samples": n, "windows_delivered": deliveries})
	}
}

// windowedConcurrent: a WindowedLimit fed from two goroutines.  While the delegate is being handed window 1 (the
// injected delegate is slow: it yields), another goroutine reports a drop with a unique, large in-flight.  That
// sample has to end up in exactly one delivered window - the one being handed over if it got in first, the next one
// otherwise - so after a further closing sample exactly one delivered window carries the drop flag and the
// largest in-flight delivered is the unique value.
func windowedConcurrent(idx int64, r *rand.Rand) {
	windowSize := int32(10 + r.IntN(5))
	minW := int64(1e8)
	var armed, bDone atomic.Bool
	yields := []int{50, 500, 5000}[r.IntN(3)]
	rec := inject.NewScriptedLimit(20, func(n int) int { return 10 + n%15 })
	rec.OnEnter = func() {
		if armed.CompareAndSwap(true, false) {
			for i := 0; i < yields && !bDone.Load(); i++ {
				runtime.Gosched()
			}
		}
	}
	w, err := limit.NewWindowedLimit("c09", minW, minW, windowSize, 0, rec, nil)
	if err != nil {
		panic(err)
	}
	t0 := int64(1e15)
	unique := 1000 + r.IntN(1000)
	nB := 1 + r.IntN(3)
	preYields := r.IntN(40)
	armed.Store(true)
	var wg sync.WaitGroup
	wg.Add(2)
	bar := make(chan struct{})
	go func() {
		defer wg.Done()
		<-bar
		w.OnSample(t0, 1000, int(windowSize)+1, false) // closes window 1 (ready: in-flight above the window size)
	}()
	go func() {
		defer wg.Done()
		<-bar
		for i := 0; i < preYields; i++ {
			runtime.Gosched()
		}
		for j := 0; j < nB; j++ {
			w.OnSample(t0+1+int64(j), 2000, 3, j == 0) // below the window size: never closes a window itself; the first is a drop
		}
		w.OnSample(t0+10, 3000, 5, false)
		bDone.Store(true)
	}()
	close(bar)
	wg.Wait()
	// one sample with the unique in-flight (not ready: the window period has not elapsed), then the closing sample of the next window
	w.OnSample(t0+20, 2500, 7, false)
	w.OnSample(t0+3*minW, 1000, unique, false)
	got := rec.Samples()
	rt.Count("windowed_concurrent_rounds", 1)
	drops, maxIF := 0, 0
	for _, s := range got {
		if s.Drop {
			drops++
		}
		if s.InFlight > maxIF {
			maxIF = s.InFlight
		}
	}
	cfg := rt.J{"window_size": windowSize, "delegate_yields": yields, "concurrent_samples": nB + 1}
	if drops != 1 || maxIF != unique || len(got) < 2 {
		rt.Violation("C09/windowed/concurrent-sample-not-in-exactly-one-delivered-window", idx, rt.J{"config": cfg, "delivered_windows": got, "windows_with_drop_flag": drops, "want": 1})
		return
	}
	rt.Distinct(fmt.Sprintf("wconc|%v|%d", cfg, len(got)))
}

// hookStrategy is a counting strategy of fixed capacity whose tokens call a hook right after they gave their unit back -
// the instant at which another caller can be admitted on that very unit.
type hookStrategy struct {
	inner        *strategy.SimpleStrategy
	afterRelease func()
}

type hookToken struct {
	core.StrategyToken
	s *hookStrategy
}

func (h *hookStrategy) TryAcquire(ctx context.Context) (core.StrategyToken, bool) {
	t, ok := h.inner.TryAcquire(ctx)
	if !ok {
		return t, ok
	}
	return &hookToken{t, h}, true
}
func (h *hookStrategy) SetLimit(int) {} // fixed capacity whatever the scripted estimate says
func (t *hookToken) Release() {
	t.StrategyToken.Release()
	if f := t.s.afterRelease; f != nil {
		f()
	}
}

// admissionInsideRelease: capacity L is fully used; every completion (success / ignore / drop) is followed, at the very
// instant its unit is free again, by the admission of a newcomer.  The newcomer is admitted with exactly L requests in
// flight (L-1 others and itself), so no window handed to the algorithm can report more than L - whatever the outcome
// of the completion that made room was.
func admissionInsideRelease(idx int64, r *rand.Rand) {
	L := 1 + r.IntN(4)
	rec := inject.NewScriptedLimit(L, func(int) int { return L })
	hs := &hookStrategy{inner: strategy.NewSimpleStrategy(L)}
	dl, err := limiter.NewDefaultLimiter(rec, 1, 1, 0, 10+r.IntN(3), hs, limit.NoopLimitLogger{}, core.EmptyMetricRegistryInstance)
	if err != nil {
		panic(err)
	}
	var held []core.Listener
	for i := 0; i < L; i++ {
		l, ok := dl.Acquire(context.Background())
		if !ok {
			panic("c09 admissionInsideRelease: set-up refused")
		}
		held = append(held, l)
	}
	var outcomes []string
	seen := 0
	for round := 0; round < 150+r.IntN(150); round++ {
		j := r.IntN(len(held))
		var newcomer core.Listener
		var admitted bool
		hs.afterRelease = func() {
			hs.afterRelease = nil
			newcomer, admitted = dl.Acquire(context.Background())
		}
		o := r.IntN(3)
		time.Sleep(time.Duration(1+r.IntN(3)) * time.Microsecond)
		switch o {
		case 0:
			held[j].OnSuccess()
		case 1:
			held[j].OnIgnore()
		default:
			held[j].OnDropped()
		}
		outcomes = append(outcomes, []string{"success", "ignore", "drop"}[o])
		rt.Count("admissions_inside_a_release/after-"+outcomes[len(outcomes)-1], 1)
		if !admitted {
			rt.Violation("C09/default/newcomer-refused-on-the-unit-just-released", idx, rt.J{"capacity": L, "round": round, "completion": outcomes[len(outcomes)-1]})
			return
		}
		held[j] = newcomer
		for _, d := range rec.Samples()[seen:] {
			seen++
			rt.Count("windows_delivered_in_admission_inside_release_cases", 1)
			if d.InFlight > L || d.InFlight < 1 {
				rt.Violation("C09/default/window-reports-more-in-flight-than-were-ever-admitted", idx, rt.J{"capacity": L, "delivered": d,
					"round": round, "last_completions": outcomes[max(0, len(outcomes)-14):]})
				return
			}
		}
	}
	for _, l := range held {
		l.OnIgnore()
	}
	rt.Count("admission_inside_release_cases", 1)
	rt.Distinct(fmt.Sprintf("air|%d|%d|%v", L, seen, outcomes[:8]))
}

// handoffAtTheTimeout: a queue limiter over the default limiter; in every round the holder completes (successfully) at
// the very instant the queued caller's backlog time-out fires, the hand-off paused at its schedule point.  Whoever ends
// up with the unit completes successfully too.  Nobody ever reports a drop, so no window handed to the algorithm may
// carry the drop flag.
func handoffAtTheTimeout(t *testing.T, idx int64, r *rand.Rand) {
	rec := inject.NewScriptedLimit(1, func(int) int { return 1 })
	T := time.Duration(1+r.IntN(5)) * time.Millisecond
	ord := []limiter.QueueOrdering{limiter.OrderingFIFO, limiter.OrderingLIFO}[r.IntN(2)]
	yields := []int{50, 500, 5000}[r.IntN(3)]
	var bad *inject.RecSample
	grantedAtTimeout, refusedAtTimeout := 0, 0
	bubble(t, func(t *testing.T) {
		dl, err := limiter.NewDefaultLimiter(rec, 1, 1, 0, 10, strategy.NewSimpleStrategy(1), limit.NoopLimitLogger{}, core.EmptyMetricRegistryInstance)
		if err != nil {
			panic(err)
		}
		q := limiter.NewQueueBlockingLimiterFromConfig(dl, limiter.QueueLimiterConfig{Ordering: ord, MaxBacklogSize: 5, MaxBacklogTimeout: T})
		limiter.SetVerifHook(func(name string) {
			if name == "queue.before_handoff" {
				for i := 0; i < yields; i++ {
					runtime.Gosched()
				}
			}
		})
		defer limiter.SetVerifHook(nil)
		for round := 0; round < 60; round++ {
			holder, ok := q.Acquire(context.Background())
			if !ok {
				panic("c09 handoffAtTheTimeout: unit refused")
			}
			var wl core.Listener
			var wok bool
			var done atomic.Bool
			go func() { wl, wok = q.Acquire(context.Background()); done.Store(true) }()
			synctest.Wait()
			time.Sleep(T) // the waiter's timer fires now ...
			holder.OnSuccess() // ... and so does the release
			synctest.Wait()
			if done.Load() && wok && wl != nil {
				grantedAtTimeout++
				time.Sleep(time.Duration(1+r.IntN(1000)) * time.Microsecond)
				wl.OnSuccess()
			} else {
				refusedAtTimeout++
			}
			synctest.Wait()
			time.Sleep(time.Microsecond)
		}
		for _, d := range rec.Samples() {
			if d.Drop && bad == nil {
				dd := d
				bad = &dd
			}
		}
	})
	rt.Count("handoffs_at_the_timeout_instant/caller-granted", int64(grantedAtTimeout))
	rt.Count("handoffs_at_the_timeout_instant/caller-refused", int64(refusedAtTimeout))
	rt.Count("windows_delivered_in_handoff_at_timeout_cases", int64(rec.Count()))
	if bad != nil {
		rt.Violation("C09/default/window-carries-a-drop-nobody-reported", idx, rt.J{"ordering": ord, "backlog_timeout": T.String(), "delivered": *bad,
			"callers_granted_at_their_timeout": grantedAtTimeout, "callers_refused_at_their_timeout": refusedAtTimeout})
		return
	}
	rt.Distinct(fmt.Sprintf("hat|%s|%v|%d|%d", ord, T, grantedAtTimeout, rec.Count()))
}

func TestCheck(t *testing.T) {
	rt.Cases(6000, 600000, func(idx int64) {
		r := rt.CaseRand(9, idx)
		rt.Case()
		if idx%16 == 3 {
			windowedConcurrent(idx, r)
		} else if idx%16 == 7 {
			admissionInsideRelease(idx, r)
		} else if idx%16 == 11 {
			handoffAtTheTimeout(t, idx, r)
		} else if idx%8 == 1 {
			simultaneousCase(t, idx, r)
		} else if idx%4 == 0 {
			defaultLimiterCase(t, idx, r)
		} else {
			windowedCase(idx, r)
		}
	})
}

// bubble runs f in a synctest bubble; a bubble that cannot end (goroutines left blocked) is recorded, not fatal.
func bubble(t *testing.T, f func(*testing.T)) {
	rt.Bubble(func() { synctest.Test(t, f) }, "C09")
}
