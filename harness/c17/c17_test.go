// C17 — concurrent use of the public API is free of data races (Go race detector over API-level stress).
// The binary is built with -race; reports go to GORACE log_path and are parsed, filtered (a frame in the
// library) and de-duplicated (unordered pair of innermost library functions) by the driver.
package c17

import (
	"context"
	"fmt"
	"math/rand/v2"
	"runtime"
	"sync"
	"sync/atomic"
	"testing"
	"time"

	"github.com/DataDog/datadog-go/v5/statsd"
	gom "github.com/rcrowley/go-metrics"

	"github.com/platinummonkey/go-concurrency-limits/core"
	"github.com/platinummonkey/go-concurrency-limits/limit"
	"github.com/platinummonkey/go-concurrency-limits/limiter"
	"github.com/platinummonkey/go-concurrency-limits/measurements"
	"github.com/platinummonkey/go-concurrency-limits/metric_registry/datadog"
	"github.com/platinummonkey/go-concurrency-limits/metric_registry/gometrics"
	"github.com/platinummonkey/go-concurrency-limits/patterns/pool"
	"github.com/platinummonkey/go-concurrency-limits/strategy"
	"github.com/platinummonkey/go-concurrency-limits/strategy/matchers"

	"verifharness/internal/rt"
)

func TestMain(m *testing.M) {
	gom.NewTimer().Stop()
	rt.Main(m)
}

// op is one exported method call on the shared instance.
type op struct {
	name string
	f    func(r *rand.Rand)
}

// hammer runs nG goroutines, each calling random ops iters times, and counts calls per method.
func hammer(scn string, seed uint64, nG, iters int, ops []op) {
	var wg sync.WaitGroup
	counts := make([][]int64, nG)
	for g := 0; g < nG; g++ {
		wg.Add(1)
		counts[g] = make([]int64, len(ops))
		go func(g int) {
			defer wg.Done()
			r := rand.New(rand.NewPCG(seed, uint64(g)+1))
			for i := 0; i < iters; i++ {
				k := r.IntN(len(ops))
				ops[k].f(r)
				counts[g][k]++
				if i%16 == 0 {
					runtime.Gosched()
				}
			}
		}(g)
	}
	wg.Wait()
	for k, o := range ops {
		var n int64
		for g := range counts {
			n += counts[g][k]
		}
		rt.Count("calls/"+scn+"/"+o.name, n)
	}
	rt.Count("scenario_runs/"+scn, 1)
}

// keep uses a string without publishing it (a shared sink variable would be a harness race).
func keep(s string) {
	if len(s) < 0 {
		panic(s)
	}
}

func keyCtx(k string) context.Context {
	c := context.WithValue(context.Background(), matchers.LookupPartitionContextKey, k)
	return context.WithValue(c, matchers.StringPredicateContextKey, k)
}

func sample(l core.Limit) func(r *rand.Rand) {
	return func(r *rand.Rand) {
		l.OnSample(time.Now().UnixNano(), 1+r.Int64N(1e6), r.IntN(40), r.IntN(10) == 0)
	}
}

func limitOps(l core.Limit) []op {
	ops := []op{
		{"OnSample", sample(l)},
		{"EstimatedLimit", func(*rand.Rand) { _ = l.EstimatedLimit() }},
		{"NotifyOnChange", func(*rand.Rand) { l.NotifyOnChange(func(int) {}) }},
		{"String", func(*rand.Rand) {
			if st, ok := l.(fmt.Stringer); ok {
				keep(st.String())
			}
		}},
	}
	if n, ok := l.(interface{ RTTNoLoad() int64 }); ok {
		ops = append(ops, op{"RTTNoLoad", func(*rand.Rand) { _ = n.RTTNoLoad() }})
	}
	if n, ok := l.(interface{ BackOffRatio() float64 }); ok {
		ops = append(ops, op{"BackOffRatio", func(*rand.Rand) { _ = n.BackOffRatio() }})
	}
	if n, ok := l.(interface{ SetLimit(int) }); ok {
		ops = append(ops, op{"SetLimit", func(r *rand.Rand) { n.SetLimit(1 + r.IntN(30)) }})
	}
	return ops
}

func scenarios() map[string]func(seed uint64, nG, iters int) {
	m := map[string]func(uint64, int, int){}
	// ---- limits
	m["limit.AIMD"] = func(s uint64, g, n int) {
		hammer("limit.AIMD", s, g, n, limitOps(limit.NewAIMDLimit("x", 10, 0.9, 1, nil)))
	}
	m["limit.Vegas"] = func(s uint64, g, n int) {
		hammer("limit.Vegas", s, g, n, limitOps(limit.NewDefaultVegasLimitWithLimit("x", 10, nil, nil)))
	}
	m["limit.Vegas.probing"] = func(s uint64, g, n int) { // probe multiplier 1: the baseline is replaced on most samples
		hammer("limit.Vegas.probing", s, g, n, limitOps(limit.NewVegasLimitWithRegistry("x", 3, nil, 10, 1, nil, nil, nil, nil, nil, 1, nil, nil)))
	}
	m["limit.Gradient.probing"] = func(s uint64, g, n int) { // probe interval 2: resets on every 2nd-4th sample
		hammer("limit.Gradient.probing", s, g, n, limitOps(limit.NewGradientLimitWithRegistry("x", 20, 1, 200, 0.2, nil, 2, 2, nil, nil)))
	}
	m["limit.Gradient"] = func(s uint64, g, n int) {
		hammer("limit.Gradient", s, g, n, limitOps(limit.NewGradientLimitWithRegistry("x", 20, 1, 200, 0.2, nil, 2, 50, nil, nil)))
	}
	m["limit.Gradient2"] = func(s uint64, g, n int) {
		hammer("limit.Gradient2", s, g, n, limitOps(limit.NewDefaultGradient2Limit("x", nil, nil)))
	}
	m["limit.Settable"] = func(s uint64, g, n int) {
		hammer("limit.Settable", s, g, n, limitOps(limit.NewSettableLimit("x", 10, nil)))
	}
	m["limit.Fixed"] = func(s uint64, g, n int) { hammer("limit.Fixed", s, g, n, limitOps(limit.NewFixedLimit("x", 10, nil))) }
	m["limit.Windowed"] = func(s uint64, g, n int) {
		w, err := limit.NewWindowedLimit("w", 1e8, 1e8, 10, 0, limit.NewAIMDLimit("x", 10, 0.9, 1, nil), nil)
		if err != nil {
			panic(err)
		}
		hammer("limit.Windowed", s, g, n, limitOps(w))
	}
	m["limit.Windowed.fast-windows"] = func(s uint64, g, n int) { // 1 ns windows: most samples with in-flight above the window size close one
		w, err := limit.NewWindowedLimit("w", 1e8, 1e8, 10, 0, limit.NewDefaultVegasLimitWithLimit("x", 10, nil, nil), nil)
		if err != nil {
			panic(err)
		}
		// sample start times 200 ms apart (they are arguments): every sample with in-flight above the window size closes a window
		var clock atomic.Int64
		ops := limitOps(w)
		ops[0] = op{"OnSample", func(r *rand.Rand) {
			w.OnSample(clock.Add(2e8), 1+r.Int64N(1e6), 5+r.IntN(20), r.IntN(10) == 0)
		}}
		hammer("limit.Windowed.fast-windows", s, g, n, ops)
	}
	m["limit.Traced"] = func(s uint64, g, n int) {
		hammer("limit.Traced", s, g, n, limitOps(limit.NewTracedLimit(limit.NewDefaultVegasLimit("x", nil, nil), limit.NoopLimitLogger{})))
	}
	// ---- strategies
	m["strategy.Simple"] = func(s uint64, g, n int) {
		st := strategy.NewSimpleStrategy(4)
		hammer("strategy.Simple", s, g, n, []op{
			{"TryAcquire+Release", func(*rand.Rand) {
				if t, ok := st.TryAcquire(context.Background()); ok {
					_ = t.IsAcquired()
					_ = t.InFlightCount()
					t.Release()
				}
			}},
			{"SetLimit", func(r *rand.Rand) { st.SetLimit(r.IntN(8)) }},
			{"GetLimit", func(*rand.Rand) { _ = st.GetLimit() }},
			{"GetBusyCount", func(*rand.Rand) { _ = st.GetBusyCount() }},
			{"String", func(*rand.Rand) { keep(st.String()) }},
		})
	}
	m["strategy.Precise"] = func(s uint64, g, n int) {
		st := strategy.NewPreciseStrategy(4)
		hammer("strategy.Precise", s, g, n, []op{
			{"TryAcquire+Release", func(*rand.Rand) {
				if t, ok := st.TryAcquire(context.Background()); ok {
					t.Release()
				}
			}},
			{"SetLimit", func(r *rand.Rand) { st.SetLimit(r.IntN(8)) }},
			{"GetLimit", func(*rand.Rand) { _ = st.GetLimit() }},
			{"GetBusyCount", func(*rand.Rand) { _ = st.GetBusyCount() }},
			{"String", func(*rand.Rand) { keep(st.String()) }},
		})
	}
	m["strategy.Lookup"] = func(s uint64, g, n int) {
		ps := map[string]*strategy.LookupPartition{}
		for _, k := range []string{"a", "b"} {
			ps[k] = strategy.NewLookupPartitionWithMetricRegistry(k, 0.3, 1, core.EmptyMetricRegistryInstance)
		}
		pa := ps["a"]
		st, err := strategy.NewLookupPartitionStrategyWithMetricRegistry(ps, nil, 6, core.EmptyMetricRegistryInstance)
		if err != nil {
			panic(err)
		}
		keys := []string{"a", "b", "c", "zz"}
		hammer("strategy.Lookup", s, g, n, []op{
			{"TryAcquire+Release", func(r *rand.Rand) {
				if t, ok := st.TryAcquire(keyCtx(keys[r.IntN(4)])); ok {
					t.Release()
				}
			}},
			{"SetLimit", func(r *rand.Rand) { st.SetLimit(r.IntN(12)) }},
			{"Limit", func(*rand.Rand) { _ = st.Limit() }},
			{"BusyCount", func(*rand.Rand) { _ = st.BusyCount() }},
			{"BinBusyCount", func(r *rand.Rand) { _, _ = st.BinBusyCount(keys[r.IntN(4)]) }},
			{"BinLimit", func(r *rand.Rand) { _, _ = st.BinLimit(keys[r.IntN(4)]) }},
			{"String", func(*rand.Rand) { keep(st.String()) }},
			{"AddPartition", func(*rand.Rand) {
				st.AddPartition("c", strategy.NewLookupPartitionWithMetricRegistry("c", 0.1, 1, core.EmptyMetricRegistryInstance))
			}},
			{"RemovePartition", func(*rand.Rand) { st.RemovePartition("c") }},
			{"Partition.BusyCount", func(*rand.Rand) { _ = pa.BusyCount() }},
			{"Partition.Limit", func(*rand.Rand) { _ = pa.Limit() }},
			{"Partition.IsLimitExceeded", func(*rand.Rand) { _ = pa.IsLimitExceeded() }},
			{"Partition.Name+Percent", func(*rand.Rand) { _, _ = pa.Name(), pa.Percent() }},
			{"Partition.String", func(*rand.Rand) { keep(pa.String()) }},
		})
	}
	m["strategy.Predicate"] = func(s uint64, g, n int) {
		var ps []*strategy.PredicatePartition
		for _, k := range []string{"a", "b"} {
			ps = append(ps, strategy.NewPredicatePartitionWithMetricRegistry(k, 0.3, matchers.StringPredicateMatcher(k, false), core.EmptyMetricRegistryInstance))
		}
		pa := ps[0]
		st, err := strategy.NewPredicatePartitionStrategyWithMetricRegistry(ps, 6, core.EmptyMetricRegistryInstance)
		if err != nil {
			panic(err)
		}
		keys := []string{"a", "b", "c", "zz"}
		hammer("strategy.Predicate", s, g, n, []op{
			{"TryAcquire+Release", func(r *rand.Rand) {
				if t, ok := st.TryAcquire(keyCtx(keys[r.IntN(4)])); ok {
					t.Release()
				}
			}},
			{"SetLimit", func(r *rand.Rand) { st.SetLimit(r.IntN(12)) }},
			{"Limit", func(*rand.Rand) { _ = st.Limit() }},
			{"BusyCount", func(*rand.Rand) { _ = st.BusyCount() }},
			// index 2 is the partition that comes and goes, 3 and 4 are never valid: an index that is (no longer) valid is
			// answered with the accessor's error
			{"BinBusyCount", func(r *rand.Rand) { _, _ = st.BinBusyCount(r.IntN(5)) }},
			{"BinLimit", func(r *rand.Rand) { _, _ = st.BinLimit(r.IntN(5)) }},
			{"String", func(*rand.Rand) { keep(st.String()) }},
			{"AddPartition", func(*rand.Rand) {
				st.AddPartition(strategy.NewPredicatePartitionWithMetricRegistry("c", 0.1, matchers.StringPredicateMatcher("c", false), core.EmptyMetricRegistryInstance))
			}},
			{"RemovePartitionsMatching", func(*rand.Rand) { st.RemovePartitionsMatching(keyCtx("c")) }},
			{"Partition.BusyCount", func(*rand.Rand) { _ = pa.BusyCount() }},
			{"Partition.Limit", func(*rand.Rand) { _ = pa.Limit() }},
			{"Partition.IsLimitExceeded", func(*rand.Rand) { _ = pa.IsLimitExceeded() }},
			{"Partition.Name+Percent", func(*rand.Rand) { _, _ = pa.Name(), pa.Percent() }},
			{"Partition.String", func(*rand.Rand) { keep(pa.String()) }},
		})
	}
	// ---- independent instances used side by side: anything they share behind the scenes (pre-computed tables,
	// default helper functions) is exercised with limits on both sides of the pre-computed range
	pairSample := func(l core.Limit) func(*rand.Rand) {
		return func(r *rand.Rand) {
			e := l.EstimatedLimit()
			l.OnSample(time.Now().UnixNano(), 1+r.Int64N(1e6), e/2+r.IntN(e+2), r.IntN(50) == 0)
		}
	}
	pair := func(name string, mk func(initial int) core.Limit) {
		m[name] = func(s uint64, g, n int) {
			var ops []op
			for i, initial := range []int{40, 2500, 1000000} {
				l := mk(initial)
				ops = append(ops, op{fmt.Sprintf("instance%d.OnSample", i), pairSample(l)}, op{fmt.Sprintf("instance%d.EstimatedLimit", i), func(*rand.Rand) { _ = l.EstimatedLimit() }})
			}
			hammer(name, s, g, n, ops)
		}
	}
	pair("limit.Gradient.independent-instances", func(initial int) core.Limit {
		return limit.NewGradientLimitWithRegistry("x", initial, 1, 1<<30, 0.2, nil, 2, 50, nil, nil)
	})
	pair("limit.Gradient2.independent-instances", func(initial int) core.Limit {
		l, err := limit.NewGradient2Limit("x", initial, 1<<30, 1, nil, 0.2, 100, nil, nil)
		if err != nil {
			panic(err)
		}
		return l
	})
	pair("limit.Vegas.independent-instances", func(initial int) core.Limit {
		return limit.NewVegasLimitWithRegistry("x", initial, nil, 1<<30, 1, nil, nil, nil, nil, nil, 5, nil, nil)
	})
	// ---- strategies (re)built from partitions that other goroutines can already see (the partitions are public
	// objects with their own accessors and gauges)
	m["strategy.Predicate.built-from-visible-partitions"] = func(s uint64, g, n int) {
		var ps []*strategy.PredicatePartition
		for _, k := range []string{"a", "b"} {
			ps = append(ps, strategy.NewPredicatePartitionWithMetricRegistry(k, 0.3, matchers.StringPredicateMatcher(k, false), core.EmptyMetricRegistryInstance))
		}
		pa := ps[0]
		hammer("strategy.Predicate.built-from-visible-partitions", s, g, n/8+1, []op{
			{"NewPredicatePartitionStrategy", func(r *rand.Rand) {
				if _, err := strategy.NewPredicatePartitionStrategyWithMetricRegistry(ps, int32(1+r.IntN(20)), core.EmptyMetricRegistryInstance); err != nil {
					panic(err)
				}
			}},
			{"Partition.Limit", func(*rand.Rand) { _ = pa.Limit() }},
			{"Partition.BusyCount", func(*rand.Rand) { _ = pa.BusyCount() }},
			{"Partition.IsLimitExceeded", func(*rand.Rand) { _ = pa.IsLimitExceeded() }},
			{"Partition.String", func(*rand.Rand) { keep(pa.String()) }},
		})
	}
	m["strategy.Lookup.built-from-visible-partitions"] = func(s uint64, g, n int) {
		pa := strategy.NewLookupPartitionWithMetricRegistry("a", 0.3, 1, core.EmptyMetricRegistryInstance)
		pb := strategy.NewLookupPartitionWithMetricRegistry("b", 0.3, 1, core.EmptyMetricRegistryInstance)
		hammer("strategy.Lookup.built-from-visible-partitions", s, g, n/8+1, []op{
			{"NewLookupPartitionStrategy", func(r *rand.Rand) {
				ps := map[string]*strategy.LookupPartition{"a": pa, "b": pb} // the map is the caller's own; the partitions are shared
				if _, err := strategy.NewLookupPartitionStrategyWithMetricRegistry(ps, nil, int32(1+r.IntN(20)), core.EmptyMetricRegistryInstance); err != nil {
					panic(err)
				}
			}},
			{"Partition.Limit", func(*rand.Rand) { _ = pa.Limit() }},
			{"Partition.BusyCount", func(*rand.Rand) { _ = pa.BusyCount() }},
			{"Partition.IsLimitExceeded", func(*rand.Rand) { _ = pa.IsLimitExceeded() }},
			{"Partition.String", func(*rand.Rand) { keep(pa.String()) }},
		})
	}
	// ---- limiters and listeners
	mkDefault := func(capacity int, l core.Limit) *limiter.DefaultLimiter {
		if l == nil {
			l = limit.NewAIMDLimit("x", capacity, 0.9, 1, nil)
		}
		dl, err := limiter.NewDefaultLimiter(l, 1, 1, 0, 10, strategy.NewSimpleStrategy(capacity), limit.NoopLimitLogger{}, core.EmptyMetricRegistryInstance)
		if err != nil {
			panic(err)
		}
		return dl
	}
	useLimiter := func(scn string, lim core.Limiter, extra ...op) func(uint64, int, int) {
		return func(s uint64, g, n int) {
			ops := []op{
				{"Acquire+OnSuccess", func(*rand.Rand) {
					ctx, cancel := context.WithTimeout(context.Background(), 2*time.Millisecond)
					if l, ok := lim.Acquire(ctx); ok {
						l.OnSuccess()
					}
					cancel()
				}},
				{"Acquire+OnIgnore", func(*rand.Rand) {
					ctx, cancel := context.WithTimeout(context.Background(), 2*time.Millisecond)
					if l, ok := lim.Acquire(ctx); ok {
						l.OnIgnore()
					}
					cancel()
				}},
				{"Acquire+OnDropped", func(*rand.Rand) {
					ctx, cancel := context.WithTimeout(context.Background(), 2*time.Millisecond)
					if l, ok := lim.Acquire(ctx); ok {
						runtime.Gosched()
						l.OnDropped()
					}
					cancel()
				}},
				{"Acquire(cancelled)", func(*rand.Rand) {
					ctx, cancel := context.WithCancel(context.Background())
					cancel()
					if l, ok := lim.Acquire(ctx); ok {
						l.OnIgnore()
					}
				}},
				{"String", func(*rand.Rand) {
					if st, ok := lim.(fmt.Stringer); ok {
						keep(st.String())
					}
				}},
			}
			hammer(scn, s, g, n, append(ops, extra...))
		}
	}
	{
		dl := mkDefault(3, nil)
		m["limiter.Default"] = useLimiter("limiter.Default", dl, op{"EstimatedLimit", func(*rand.Rand) { _ = dl.EstimatedLimit() }})
	}
	m["limiter.Blocking"] = func(s uint64, g, n int) {
		useLimiter("limiter.Blocking", limiter.NewBlockingLimiter(mkDefault(2, nil), time.Millisecond, nil))(s, g, n/4+1)
	}
	m["limiter.Deadline"] = func(s uint64, g, n int) {
		useLimiter("limiter.Deadline", limiter.NewDeadlineLimiter(mkDefault(2, nil), time.Now().Add(50*time.Millisecond), nil))(s, g, n/4+1)
	}
	m["limiter.Queue"] = func(s uint64, g, n int) {
		for _, o := range []limiter.QueueOrdering{limiter.OrderingFIFO, limiter.OrderingLIFO} {
			q := limiter.NewQueueBlockingLimiterFromConfig(mkDefault(2, nil), limiter.QueueLimiterConfig{Ordering: o, MaxBacklogSize: 3,
				MaxBacklogTimeout: time.Millisecond, BacklogEvictDoneCtx: s%2 == 0})
			useLimiter("limiter.Queue", q)(s, g, n/4+1)
		}
		useLimiter("limiter.Queue", limiter.NewFifoBlockingLimiter(mkDefault(2, nil), 3, time.Millisecond))(s, g, n/8+1)
		useLimiter("limiter.Queue", limiter.NewLifoBlockingLimiter(mkDefault(2, nil), 3, time.Millisecond, nil))(s, g, n/8+1)
	}
	// ---- constructors called concurrently with one shared configuration value / one shared tag slice that has spare capacity
	// (what a service does when it builds its per-endpoint limiters from a common base at start-up)
	m["ctor.shared-config-and-tags"] = func(s uint64, g, n int) {
		base := make([]string, 2, 16)
		base[0], base[1] = "service", "x"
		mr, _ := gometrics.NewGoMetricsMetricRegistry(gom.NewRegistry(), "", "p", time.Hour)
		cfg := limiter.QueueLimiterConfig{MaxBacklogSize: 3, MaxBacklogTimeout: time.Millisecond, MetricRegistry: mr, Tags: base}
		hammer("ctor.shared-config-and-tags", s, g, n/16+1, []op{
			{"NewQueueBlockingLimiterFromConfig(fifo)", func(*rand.Rand) {
				c := cfg
				c.Ordering = limiter.OrderingFIFO
				keep(limiter.NewQueueBlockingLimiterFromConfig(mkDefault(1, nil), c).String())
			}},
			{"NewQueueBlockingLimiterFromConfig(lifo)", func(*rand.Rand) {
				c := cfg
				c.Ordering = limiter.OrderingLIFO
				keep(limiter.NewQueueBlockingLimiterFromConfig(mkDefault(1, nil), c).String())
			}},
			{"NewQueueBlockingLimiterFromConfig(default ordering)", func(*rand.Rand) {
				keep(limiter.NewQueueBlockingLimiterFromConfig(mkDefault(1, nil), cfg).String())
			}},
			{"NewAIMDLimit(tags)", func(*rand.Rand) { keep(limit.NewAIMDLimit("x", 5, 0.9, 1, mr, base...).String()) }},
			{"NewDefaultVegasLimit(tags)", func(*rand.Rand) { keep(limit.NewDefaultVegasLimit("x", nil, mr, base...).String()) }},
			{"NewDefaultGradient2Limit(tags)", func(*rand.Rand) { keep(limit.NewDefaultGradient2Limit("x", nil, mr, base...).String()) }},
			{"NewSimpleStrategyWithMetricRegistry(tags)", func(*rand.Rand) {
				keep(strategy.NewSimpleStrategyWithMetricRegistry(3, mr, base...).String())
			}},
			{"NewPreciseStrategyWithMetricRegistry(tags)", func(*rand.Rand) {
				keep(strategy.NewPreciseStrategyWithMetricRegistry(3, mr, base...).String())
			}},
			{"NewDefaultLimiter", func(*rand.Rand) {
				dl, err := limiter.NewDefaultLimiter(limit.NewFixedLimit("x", 3, nil), 1, 1, 0, 10, strategy.NewSimpleStrategy(3), limit.NoopLimitLogger{}, mr)
				if err != nil {
					panic(err)
				}
				keep(dl.String())
			}},
			{"NewFixedPool", func(r *rand.Rand) {
				fp, err := pool.NewFixedPool("p", pool.Ordering(r.IntN(3)), 2, -1, -1, -1, -1, 3, time.Millisecond, nil, mr)
				if err != nil {
					panic(err)
				}
				keep(fmt.Sprint(fp.Limit()))
			}},
		})
		mr.Stop()
	}
	m["pool"] = func(s uint64, g, n int) {
		for _, o := range []pool.Ordering{pool.OrderingRandom, pool.OrderingFIFO, pool.OrderingLIFO} {
			fp, err := pool.NewFixedPool("p", o, 2, -1, -1, -1, -1, 3, time.Millisecond, nil, nil)
			if err != nil {
				panic(err)
			}
			useLimiter("pool", fp, op{"Limit+Ordering", func(*rand.Rand) { _, _ = fp.Limit(), fp.Ordering() }})(s, g, n/8+1)
			gp, err := pool.NewPool(mkDefault(2, nil), o, 3, time.Millisecond, nil, nil)
			if err != nil {
				panic(err)
			}
			useLimiter("pool", gp)(s, g, n/8+1)
		}
	}
	// ---- measurements
	meas := func(scn string, mk func() core.MeasurementInterface) {
		m[scn] = func(s uint64, g, n int) {
			x := mk()
			hammer(scn, s, g, n, []op{
				{"Add", func(r *rand.Rand) { x.Add(1 + r.Float64()*100) }},
				{"Get", func(*rand.Rand) { _ = x.Get() }},
				{"Reset", func(*rand.Rand) { x.Reset() }},
				{"Update", func(*rand.Rand) { x.Update(func(v float64) float64 { return v*0.9 + 1 }) }},
				{"String", func(*rand.Rand) {
					if st, ok := x.(fmt.Stringer); ok { // printing a struct without a String method would read its fields by reflection
						keep(st.String())
					}
				}},
			})
		}
	}
	meas("measurements.Minimum", func() core.MeasurementInterface { return &measurements.MinimumMeasurement{} })
	meas("measurements.Single", func() core.MeasurementInterface { return &measurements.SingleMeasurement{} })
	meas("measurements.ExponentialAverage", func() core.MeasurementInterface { return measurements.NewExponentialAverageMeasurement(10, 3) })
	meas("measurements.SimpleExponentialMovingAverage", func() core.MeasurementInterface {
		x, _ := measurements.NewSimpleExponentialMovingAverage(0.2)
		return x
	})
	meas("measurements.SimpleMovingVariance", func() core.MeasurementInterface {
		x, _ := measurements.NewSimpleMovingVariance(0.2, 0.2)
		return x
	})
	meas("measurements.WindowlessMovingPercentile", func() core.MeasurementInterface {
		x, _ := measurements.NewWindowlessMovingPercentile(0.9, 0.01, 0.2, 0.2)
		return x
	})
	m["measurements.ImmutableSampleWindow"] = func(s uint64, g, n int) {
		w := measurements.NewDefaultImmutableSampleWindow()
		hammer("measurements.ImmutableSampleWindow", s, g, n, []op{
			{"AddSample", func(r *rand.Rand) { _ = w.AddSample(-1, 1+r.Int64N(1000), r.IntN(10)) }},
			{"AddDroppedSample", func(r *rand.Rand) { _ = w.AddDroppedSample(-1, r.IntN(10)) }},
			{"accessors", func(*rand.Rand) {
				_, _, _, _, _, _ = w.StartTimeNanoseconds(), w.CandidateRTTNanoseconds(), w.AverageRTTNanoseconds(), w.MaxInFlight(), w.SampleCount(), w.DidDrop()
			}},
			{"String", func(*rand.Rand) { keep(w.String()) }},
		})
	}
	// ---- metric registries
	regOps := func(mr core.MetricRegistry) []op {
		ids := []string{"a", "b", "c", "d", "e", "f"}
		return []op{
			{"RegisterDistribution+AddSample", func(r *rand.Rand) { mr.RegisterDistribution("d." + ids[r.IntN(6)]).AddSample(1) }},
			{"RegisterTiming+AddSample", func(r *rand.Rand) { mr.RegisterTiming("t." + ids[r.IntN(6)]).AddSample(1) }},
			{"RegisterCount+AddSample", func(r *rand.Rand) { mr.RegisterCount("c." + ids[r.IntN(6)]).AddSample(1) }},
			{"RegisterGauge", func(r *rand.Rand) { mr.RegisterGauge("g."+ids[r.IntN(6)], func() (float64, bool) { return 1, true }) }},
			{"Start", func(*rand.Rand) { mr.Start() }},
			{"Stop", func(*rand.Rand) { mr.Stop() }},
		}
	}
	// a registry that stays started while new gauges / listeners keep being registered (the poller iterates the gauge
	// table every 50us while RegisterGauge adds to it)
	runningOps := func(mr core.MetricRegistry) []op {
		var seq atomic.Int64
		return []op{
			{"RegisterGauge(new id)", func(*rand.Rand) {
				mr.RegisterGauge(fmt.Sprintf("g.%d", seq.Add(1)), func() (float64, bool) { return 1, true })
			}},
			{"RegisterDistribution(new id)+AddSample", func(*rand.Rand) { mr.RegisterDistribution(fmt.Sprintf("d.%d", seq.Add(1))).AddSample(1) }},
			{"RegisterTiming+AddSample", func(r *rand.Rand) { mr.RegisterTiming(fmt.Sprintf("t.%d", r.IntN(4))).AddSample(1) }},
			{"RegisterCount+AddSample", func(r *rand.Rand) { mr.RegisterCount(fmt.Sprintf("c.%d", r.IntN(4))).AddSample(1) }},
			{"Start(idempotent)", func(*rand.Rand) { mr.Start() }},
		}
	}
	m["registry.gometrics.running"] = func(s uint64, g, n int) {
		mr, err := gometrics.NewGoMetricsMetricRegistry(gom.NewRegistry(), "", "p", 50*time.Microsecond)
		if err != nil {
			panic(err)
		}
		mr.Start()
		hammer("registry.gometrics.running", s, g, n/4+1, runningOps(mr))
		mr.Stop()
	}
	m["registry.datadog.running"] = func(s uint64, g, n int) {
		cl, err := statsd.NewWithWriter(nopWriter{}, statsd.WithoutTelemetry(), statsd.WithoutClientSideAggregation(), statsd.WithoutOriginDetection())
		if err != nil {
			panic(err)
		}
		mr, err := datadog.NewMetricRegistryWithClient(cl, "p", 50*time.Microsecond)
		if err != nil {
			panic(err)
		}
		mr.Start()
		hammer("registry.datadog.running", s, g, n/4+1, runningOps(mr))
		mr.Stop()
		cl.Close()
	}
	m["registry.gometrics"] = func(s uint64, g, n int) {
		mr, err := gometrics.NewGoMetricsMetricRegistry(gom.NewRegistry(), "", "p", 200*time.Microsecond)
		if err != nil {
			panic(err)
		}
		hammer("registry.gometrics", s, g, n/4+1, regOps(mr))
		mr.Stop()
	}
	m["registry.datadog"] = func(s uint64, g, n int) {
		cl, err := statsd.NewWithWriter(nopWriter{}, statsd.WithoutTelemetry(), statsd.WithoutClientSideAggregation(), statsd.WithoutOriginDetection())
		if err != nil {
			panic(err)
		}
		mr, err := datadog.NewMetricRegistryWithClient(cl, "p", 200*time.Microsecond)
		if err != nil {
			panic(err)
		}
		hammer("registry.datadog", s, g, n/4+1, regOps(mr))
		mr.Stop()
		cl.Close()
	}
	// ---- an instrumented limit shared by a limiter (limit + registry + limiter together)
	m["integration.limiter+registry"] = func(s uint64, g, n int) {
		mr, _ := gometrics.NewGoMetricsMetricRegistry(gom.NewRegistry(), "", "p", 200*time.Microsecond)
		mr.Start()
		l := limit.NewDefaultVegasLimitWithLimit("veg", 4, nil, mr)
		st := strategy.NewSimpleStrategyWithMetricRegistry(4, mr)
		dl, _ := limiter.NewDefaultLimiter(l, 1, 1, 0, 10, st, limit.NoopLimitLogger{}, mr)
		useLimiter("integration.limiter+registry", dl, op{"Limit.String", func(*rand.Rand) { keep(l.String()) }})(s, g, n/2+1)
		mr.Stop()
	}
	// ---- blocking stacks whose gauges are polled by a started registry while callers enqueue, time out and are handed tokens
	m["integration.queue+registry"] = func(s uint64, g, n int) {
		for _, o := range []limiter.QueueOrdering{limiter.OrderingFIFO, limiter.OrderingLIFO} {
			mr, _ := gometrics.NewGoMetricsMetricRegistry(gom.NewRegistry(), "", "p", 50*time.Microsecond)
			mr.Start()
			q := limiter.NewQueueBlockingLimiterFromConfig(mkDefault(1, nil), limiter.QueueLimiterConfig{Ordering: o, MaxBacklogSize: 4,
				MaxBacklogTimeout: time.Millisecond, BacklogEvictDoneCtx: s%2 == 0, MetricRegistry: mr})
			useLimiter("integration.queue+registry", q)(s, g, n/6+1)
			mr.Stop()
		}
	}
	m["integration.pool+registry"] = func(s uint64, g, n int) {
		mr, _ := gometrics.NewGoMetricsMetricRegistry(gom.NewRegistry(), "", "p", 50*time.Microsecond)
		mr.Start()
		fp, err := pool.NewFixedPool("p", pool.OrderingLIFO, 2, -1, -1, -1, -1, 3, time.Millisecond, nil, mr)
		if err != nil {
			panic(err)
		}
		useLimiter("integration.pool+registry", fp)(s, g, n/6+1)
		mr.Stop()
	}
	return m
}

type nopWriter struct{}

func (nopWriter) Write(p []byte) (int, error) { return len(p), nil }
func (nopWriter) Close() error                { return nil }

func TestCheck(t *testing.T) {
	scn := scenarios()
	var names []string
	for k := range scn {
		names = append(names, k)
	}
	sortStrings(names)
	reps := 10
	if rt.Thorough() {
		reps = 2000
	}
	rt.Cases(len(names)*reps, len(names)*reps, func(idx int64) {
		r := rt.CaseRand(17, idx)
		rt.Case()
		name := names[int(idx)%len(names)]
		nG := 4 + r.IntN(13)
		iters := 300 + r.IntN(500)
		yield := r.IntN(2) == 0
		if yield {
			strategy.SetVerifHook(func(string) { runtime.Gosched() })
			limiter.SetVerifHook(func(string) { runtime.Gosched() })
		}
		scn[name](r.Uint64(), nG, iters)
		strategy.SetVerifHook(nil)
		limiter.SetVerifHook(nil)
		rt.Distinct(fmt.Sprintf("%s|%d|%d|%v|%d", name, nG, iters, yield, idx))
		if rt.WantSample() && idx%5 == 0 {
			rt.Sample(rt.J{"scenario": name, "goroutines": nG, "iterations_per_goroutine": iters, "yield_hooks": yield})
		}
	})
}

func sortStrings(s []string) {
	for i := 1; i < len(s); i++ {
		for j := i; j > 0 && s[j] < s[j-1]; j-- {
			s[j], s[j-1] = s[j-1], s[j]
		}
	}
}
