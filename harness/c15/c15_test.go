// C15 — the no-load RTT baseline of Vegas and Gradient is a recent true minimum and is refreshed by probing.
// Histories carry unique RTTs, so the reported baseline identifies the sample it came from.
package c15

import (
	"fmt"
	"github.com/platinummonkey/go-concurrency-limits/measurements"
	"math"
	mrand "math/rand"
	"math/rand/v2"
	"testing"

	"github.com/platinummonkey/go-concurrency-limits/limit"

	"verifharness/internal/limgen"
	"verifharness/internal/rt"
)

func TestMain(m *testing.M) { rt.Main(m) }

func genSpec(r *rand.Rand) limgen.Spec {
	if r.IntN(2) == 0 {
		mx := 1 + r.IntN(40)
		return limgen.Spec{Kind: "vegas", Max: mx, Initial: 1 + r.IntN(mx), Smoothing: []float64{1, 0.5, 0.2}[r.IntN(3)],
			ProbeMult: []int{1, 2, 3, 5, 10, 30}[r.IntN(6)]}
	}
	s := limgen.Gen(r, "gradient", limgen.Opts{})
	s.ProbeInt = []int{3, 10, 50, 200, limit.ProbeDisabled}[r.IntN(5)]
	return s
}

func TestCheck(t *testing.T) {
	rt.Cases(3200, 200000, func(idx int64) {
		r := rt.CaseRand(15, idx)
		rt.Case()
		spec := genSpec(r)
		seed := int64(r.Uint64() >> 1)
		mrand.Seed(seed)
		l := spec.New(nil, "c15")
		// the documented default multiplier (30) as the constructors hand it out: "default" arguments (-1 / 0) and
		// the NewDefault... constructors; half of these cases keep the limit pinned (app-limited samples) so that the
		// probe cadence stays short
		ctor, pinned := "", false
		if spec.Kind == "vegas" && r.IntN(4) == 0 {
			ctor = []string{"NewDefaultVegasLimit", "NewDefaultVegasLimitWithLimit", "WithRegistry(probeMultiplier=-1)", "WithRegistry(probeMultiplier=0)"}[r.IntN(4)]
			pinned = r.IntN(2) == 0
			spec = limgen.Spec{Kind: "vegas", Initial: 20, Max: 1000, Smoothing: 1, ProbeMult: 30}
			switch ctor {
			case "NewDefaultVegasLimit":
				l = limit.NewDefaultVegasLimit("c15", nil, nil)
			case "NewDefaultVegasLimitWithLimit":
				spec.Initial = 1 + r.IntN(30)
				l = limit.NewDefaultVegasLimitWithLimit("c15", spec.Initial, nil, nil)
			case "WithRegistry(probeMultiplier=-1)":
				l = limit.NewVegasLimitWithRegistry("c15", -1, nil, -1, -1, nil, nil, nil, nil, nil, -1, nil, nil)
			default:
				l = limit.NewVegasLimitWithRegistry("c15", -1, nil, -1, -1, nil, nil, nil, nil, nil, 0, nil, nil)
			}
			rt.Count("cases_with_default_probe_multiplier/"+ctor, 1)
		} else if spec.Kind == "vegas" && r.IntN(3) == 0 {
			// the caller supplies the measurement object that holds the baseline (a constructor argument)
			ctor = "WithRegistry(rttNoLoad supplied by the caller)"
			l = limit.NewVegasLimitWithRegistry("c15", spec.Initial, &measurements.MinimumMeasurement{}, spec.Max, spec.Smoothing, nil, nil, nil, nil, nil, spec.ProbeMult, nil, nil)
			rt.Count("cases_with_caller_supplied_baseline_measurement", 1)
		}
		nl := l.(limgen.NoLoader)
		n := 1500 + r.IntN(2500)
		rtts := make([]int64, 0, n)
		ests := make([]int, 0, n+1) // ests[i] = reported estimate before sample i
		where := map[int64]int{}
		level := int64(1 + r.IntN(500))
		K := 0            // earliest reset index consistent with everything observed so far
		lastMaybe := -1   // latest index whose own rtt became the baseline (every probe is one of these)
		lastCertain := -1 // latest index at which the baseline was certainly reset (raised / cleared)
		prevB := int64(0)
		resets, raises, lowerings := 0, 0, 0
		zeroLeft := 0
		lastProbe := -1 // gradient: latest index at which a probe (not a sample that measured nothing) cleared the baseline
		viol := func(sig string, i int, extra rt.J) {
			lo := i - 15
			if lo < 0 {
				lo = 0
			}
			extra["spec"], extra["math_rand_seed"], extra["sample_index"], extra["rtts_tail"] = spec, seed, i, rtts[lo:i+1]
			if ctor != "" {
				extra["constructor"], extra["limit_pinned_by_app_limited_samples"] = ctor, pinned
			}
			rt.Violation("C15/"+spec.Kind+"/"+sig, idx, extra)
		}
		for i := 0; i < n; i++ {
			if r.IntN(120) == 0 {
				if r.IntN(2) == 0 {
					level += int64(1 + r.IntN(400))
				} else {
					level = 1 + r.Int64N(level)
				}
			}
			rtt := level*10000 + int64(i) // unique
			if zeroLeft > 0 {
				zeroLeft--
				rtt = 0
			} else if spec.Kind == "gradient" && !pinned && r.IntN(150) == 0 {
				// a short run of samples that measured nothing (what drop-only windows hand on): they leave the baseline unset -
				// which is allowed - and change nothing about when the next probe is due
				zeroLeft = 1 + r.IntN(3)
				rtt = 0
				rt.Count("gradient_runs_of_zero_rtt_samples", 1)
			}
			est := l.EstimatedLimit()
			ests = append(ests, est)
			inflight := est
			switch r.IntN(4) {
			case 0:
				inflight = r.IntN(2*est + 2)
			case 1:
				inflight = est + r.IntN(5)
			}
			drop := r.IntN(40) == 0
			if pinned {
				inflight, drop = 1, false
			}
			l.OnSample(0, rtt, inflight, drop)
			rtts = append(rtts, rtt)
			where[rtt] = i
			rt.Count("samples", 1)
			b := nl.RTTNoLoad()
			if b == 0 && rtt == 0 {
				// unset because the sample itself measured nothing: a reset of the baseline like any other, but not a probe
				if prevB != 0 {
					resets++
				}
				lastCertain, lastMaybe, K, prevB = i, i, i+1, 0
				continue
			}
			if b == 0 {
				// (Gradient: a sample with a positive RTT that leaves the baseline unset was a probe, also when the baseline
				// was unset before it - e.g. right after samples that measured nothing)
				if prevB != 0 || (spec.Kind == "gradient" && rtt > 0) {
					resets++
					if spec.Kind == "gradient" {
						if spec.ProbeInt != limit.ProbeDisabled && i-lastProbe < spec.ProbeInt {
							viol("premature-reset", i, rt.J{"since_last_probe": i - lastProbe, "probe_interval": spec.ProbeInt})
							return
						}
						lastProbe = i
						if spec.ProbeInt == limit.ProbeDisabled {
							viol("reset-although-probing-disabled", i, rt.J{})
							return
						}
					}
					lastCertain, lastMaybe = i, i
					K = i + 1
				}
				prevB = 0
				if spec.Kind == "gradient" && spec.ProbeInt != limit.ProbeDisabled && i-lastCertain > 2*spec.ProbeInt-1 {
					viol("probe-overdue", i, rt.J{"since_last_reset": i - lastCertain, "probe_interval": spec.ProbeInt})
					return
				}
				continue
			}
			if b > rtt {
				viol("baseline-above-current-sample", i, rt.J{"baseline": b, "rtt": rtt})
				return
			}
			j, ok := where[b]
			if !ok {
				viol("baseline-is-not-an-observed-rtt", i, rt.J{"baseline": b})
				return
			}
			// b must be the minimum of rtt[j..i]
			for k := j + 1; k <= i; k++ {
				if rtts[k] < b {
					viol("baseline-not-minimum-since-its-sample", i, rt.J{"baseline": b, "source_index": j, "smaller_rtt_at": k, "smaller_rtt": rtts[k]})
					return
				}
			}
			// the reset point may never move backwards: j must not precede a reset already established
			if j < K {
				viol("baseline-older-than-last-reset", i, rt.J{"baseline": b, "source_index": j, "reset_no_earlier_than": K})
				return
			}
			lowk := 0
			for k := j - 1; k >= K; k-- {
				if rtts[k] < b {
					lowk = k + 1
					break
				}
			}
			if lowk > K {
				K = lowk
			}
			if b != prevB {
				if j == i {
					lastMaybe = i
				}
				if prevB != 0 && b > prevB {
					raises++
					resets++
					if spec.Kind == "vegas" { // a probe cannot fire before floor(0.5*mult*estimate) samples
						need := int(0.5 * float64(spec.ProbeMult) * float64(est))
						if i-lastCertain < need {
							viol("premature-reset", i, rt.J{"since_last_reset": i - lastCertain, "earliest_allowed": need, "estimate": est})
							return
						}
					}
					lastCertain = i
				} else if prevB != 0 {
					lowerings++
				}
				prevB = b
			}
			// staleness
			if spec.Kind == "vegas" {
				maxE := 0
				for k := j; k <= i; k++ {
					if ests[k] > maxE {
						maxE = ests[k]
					}
				}
				if e := l.EstimatedLimit(); e > maxE {
					maxE = e
				}
				if i-j >= spec.ProbeMult*(maxE+1)+1 {
					viol("baseline-stale", i, rt.J{"baseline": b, "source_index": j, "age": i - j, "bound": spec.ProbeMult*(maxE+1) + 1})
					return
				}
				maxE = 0
				from := lastMaybe
				if from < 0 {
					from = 0
				}
				for k := from; k <= i; k++ {
					if ests[k] > maxE {
						maxE = ests[k]
					}
				}
				if i-lastMaybe >= spec.ProbeMult*(maxE+1)+2 {
					viol("probe-overdue", i, rt.J{"since_last_possible_probe": i - lastMaybe, "bound": spec.ProbeMult*(maxE+1) + 2})
					return
				}
				// the countdown runs from the last reset, not from the last new minimum: a probe cannot fire before
				// floor(0.5 x multiplier x estimate) samples after a reset, so a sample earlier than that which became the
				// baseline was a plain new minimum; once the horizon counted from the last certain reset has passed, the
				// baseline must stem from a sample no earlier than the earliest possible probe
				cMin, cMax := math.MaxInt, 0
				for k := lastCertain + 1; k <= i; k++ {
					if k < 0 {
						continue
					}
					if ests[k] < cMin {
						cMin = ests[k]
					}
					if ests[k] > cMax {
						cMax = ests[k]
					}
				}
				if e := l.EstimatedLimit(); e > cMax {
					cMax = e
				}
				earliest := lastCertain + int(0.5*float64(spec.ProbeMult)*float64(cMin))
				if i-lastCertain >= spec.ProbeMult*(cMax+1)+2 && j < earliest {
					viol("no-probe-within-the-horizon-of-the-last-reset", i, rt.J{"last_certain_reset_at": lastCertain, "baseline_source_index": j,
						"earliest_possible_probe_at": earliest, "horizon": spec.ProbeMult*(cMax+1) + 2})
					return
				}
				rt.Count("reset_horizon_checks", 1)
			} else if spec.ProbeInt != limit.ProbeDisabled {
				if i-j >= 2*spec.ProbeInt {
					viol("baseline-stale", i, rt.J{"baseline": b, "source_index": j, "age": i - j, "bound": 2 * spec.ProbeInt})
					return
				}
				if i-lastCertain > 2*spec.ProbeInt-1 {
					viol("probe-overdue", i, rt.J{"since_last_reset": i - lastCertain, "probe_interval": spec.ProbeInt})
					return
				}
			}
		}
		rt.Count("baseline_resets_observed", int64(resets))
		rt.Count("baseline_raises_observed", int64(raises))
		rt.Count("baseline_lowerings_observed", int64(lowerings))
		rt.Count("cases/"+spec.Kind, 1)
		if resets > 0 && lowerings > 0 {
			rt.Distinct(fmt.Sprintf("%+v|%d|%d|%d", spec, seed, n, rtts[n/2]))
		}
		if rt.WantSample() && idx%37 == 0 {
			rt.Sample(rt.J{"spec": spec, "samples": n, "first_rtts": rtts[:8], "resets_observed": resets, "raises": raises, "lowerings": lowerings})
		}
	})
}
