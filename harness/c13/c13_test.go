// C13 — timeouts, deadlines and cancellation bound every blocked Acquire (exact instants on a virtual clock).
package c13

import (
	"context"
	"fmt"
	"github.com/platinummonkey/go-concurrency-limits/patterns/pool"
	"math"
	"math/rand/v2"
	"runtime"
	"strings"
	"sync/atomic"
	"testing"
	"testing/synctest"
	"time"

	"github.com/platinummonkey/go-concurrency-limits/core"
	"github.com/platinummonkey/go-concurrency-limits/limit"
	"github.com/platinummonkey/go-concurrency-limits/limiter"
	"github.com/platinummonkey/go-concurrency-limits/strategy"

	"verifharness/internal/blk"
	"verifharness/internal/inject"
	"verifharness/internal/rt"
)

func TestMain(m *testing.M) { rt.Main(m) }

type scenario struct {
	Kind       blk.Kind      `json:"kind"`
	Exhausted  bool          `json:"capacity_exhausted"`
	ArriveAt   time.Duration `json:"arrive_at"`   // relative to world start
	CancelMode string        `json:"cancel_mode"` // none | before-arrival | at-arrival | mid | at-bound | after-bound
	CancelAt   time.Duration `json:"cancel_at"`
}

func kinds(r *rand.Rand, T time.Duration) []blk.Kind {
	return []blk.Kind{
		{Family: "blocking", Timeout: 0},
		{Family: "blocking", Timeout: T},
		{Family: "deadline", Timeout: T, ZoneOffset: []int{0, 0, 19800, -28800, 3600, -1800}[r.IntN(6)]}, // the deadline value may be expressed in any zone
		{Family: "queue", Ordering: "fifo", Evict: true, Backlog: 5, Timeout: T},
		{Family: "queue", Ordering: "lifo", Evict: false, Backlog: 5, Timeout: T},
		{Family: "queue", Ordering: "lifo", Evict: true, Backlog: 5, Timeout: T},
		{Family: "queue", Ordering: "fifo", Evict: false, Backlog: 5, Timeout: T},
		// backlog time-out disabled (negative): only a release or - with eviction - the end of the context ends the wait
		{Family: "queue", Ordering: "fifo", Evict: true, Backlog: 5, Timeout: -1},
		{Family: "queue", Ordering: "lifo", Evict: false, Backlog: 5, Timeout: -1},
		// ordered pools (pool.NewPool): the time-out argument itself, and "give me the default" (<= 0: one second)
		{Family: "queue", Ordering: "fifo", Backlog: 5, Timeout: T, ViaPool: true, PoolTimeout: T},
		{Family: "queue", Ordering: []string{"fifo", "lifo"}[r.IntN(2)], Backlog: 5, Timeout: time.Second, ViaPool: true, PoolTimeout: []time.Duration{0, -1, -time.Hour}[r.IntN(3)]},
		// the time-out left to default (0 = one second), with and without eviction
		{Family: "queue", Ordering: []string{"fifo", "lifo", ""}[r.IntN(3)], Evict: r.IntN(2) == 0, Backlog: 5, Timeout: time.Second, ZeroTimeoutArg: true},
	}
}

var cancelModes = []string{"none", "before-arrival", "at-arrival", "mid", "at-bound", "after-bound"}
var arriveModes = []string{"early", "at-deadline", "after-deadline", "just-before-deadline"}

func run(t *testing.T, idx int64, r *rand.Rand, kindIdx, cmIdx, amIdx int, exhausted bool) {
	T := time.Duration(1+r.IntN(5000)) * time.Millisecond
	if r.IntN(4) == 0 {
		T = time.Duration(1+r.Int64N(int64(time.Hour))) + 1
	}
	k := kinds(r, T)[kindIdx]
	if k.ViaPool {
		T = k.Timeout
		rt.Count("ordered_pool_cases", 1)
	}
	if k.ZeroTimeoutArg {
		T = k.Timeout
		rt.Count("default_timeout_cases", 1)
	}
	cm := cancelModes[cmIdx]
	am := arriveModes[amIdx]
	if k.Family != "deadline" {
		am = "early"
	}
	var sc scenario
	var trace []string
	var snap blk.Snapshot
	var wt *blk.Waiter
	var expected time.Duration
	expectRefusedAt := true // false: the call must stay blocked (no bound applies)
	expectGrant := false
	var busyBefore, busyAfter int
	viaDeadline := false
	slow := k.Family == "queue" && k.Timeout > 0 && cm == "none" && exhausted && r.IntN(2) == 0
	slowBy := T/4 + time.Duration(r.Int64N(int64(T)))
	var pushedAt time.Duration
	rt.Scenario(fmt.Sprintf("C13/%s", k), idx, rt.J{"kind": k, "cancel_mode": cm, "arrival": am, "capacity_exhausted": exhausted})
	defer rt.ScenarioDone()
	bubble(t, func(t *testing.T) {
		w := blk.NewWorld(k, 1)
		var held = w.Hold(0)
		if exhausted {
			held = w.Hold(1)
		}
		arrive := time.Duration(r.Int64N(int64(T)/2 + 1))
		switch am {
		case "at-deadline":
			arrive = T
		case "after-deadline":
			arrive = T + 1 + time.Duration(r.Int64N(int64(T)))
		case "just-before-deadline": // less than a millisecond (down to 1 ns) of the deadline left
			d := time.Duration(1 + r.Int64N(999999))
			if r.IntN(4) == 0 {
				d = []time.Duration{1, 2, 999, 1000, 999999}[r.IntN(5)]
			}
			if d >= T {
				d = T - 1
			}
			if d < 1 {
				d = 1
			}
			arrive = T - d
		}
		time.Sleep(arrive - w.Now())
		// the call's own bound
		var bound time.Duration // 0 = none
		switch k.Family {
		case "queue":
			if k.Timeout > 0 {
				bound = arrive + T
			}
		case "deadline":
			bound = T
			if arrive > T {
				bound = arrive
			}
		}
		cancelAt := time.Duration(-1)
		switch cm {
		case "before-arrival", "at-arrival":
			cancelAt = arrive
		case "mid":
			if bound > arrive+1 {
				cancelAt = arrive + 1 + time.Duration(r.Int64N(int64(bound-arrive-1)))
			} else if bound == 0 {
				cancelAt = arrive + 1 + time.Duration(r.Int64N(int64(T)))
			} else if bound > arrive {
				cancelAt = -1 // one nanosecond before the bound: there is no instant strictly between arrival and bound
			} else {
				cancelAt = arrive
			}
		case "at-bound":
			if bound > 0 {
				cancelAt = bound
			} else {
				cancelAt = arrive + T
			}
		case "after-bound":
			if bound > 0 {
				cancelAt = bound + 1 + time.Duration(r.Int64N(int64(T)))
			} else {
				cancelAt = arrive + T + 1
			}
		}
		sc = scenario{Kind: k, Exhausted: exhausted, ArriveAt: arrive, CancelMode: cm, CancelAt: cancelAt}
		cancelHonoured := k.Family != "queue" || k.Evict
		// expected outcome
		switch {
		case !exhausted:
			// capacity is free: only an already-cancelled context (blocking, deadline) or a passed deadline refuses
			if (cm == "before-arrival" && k.Family != "queue") || (k.Family == "deadline" && arrive > T) {
				expected = arrive
			} else if cm == "at-arrival" && k.Family != "queue" {
				// the cancellation races with the call's own check of the context: either verdict, but immediately
				expected, expectRefusedAt, expectGrant = arrive, false, true
			} else if k.Family == "deadline" && arrive == T {
				expected, expectRefusedAt = arrive, false // exactly at the deadline: either verdict, but immediately
				expectGrant = true
			} else {
				expectGrant = true
				expected = arrive
			}
		default:
			expected = bound
			if cancelAt >= 0 && cancelHonoured && (bound == 0 || cancelAt < bound) {
				expected = cancelAt
			}
			if k.Family == "deadline" && arrive >= T {
				expected = arrive
			}
			if expected == 0 && !(cancelAt == 0 && cancelHonoured) && bound == 0 {
				expectRefusedAt = false // blocking limiter without cancellation: must stay blocked
			}
			if bound == 0 && (cancelAt < 0 || !cancelHonoured) {
				expectRefusedAt = false
			}
		}
		// slow delegate (queue limiter, no cancellation): every failed attempt of the caller takes virtual time, so the
		// backlog timer is armed later than the call began; the refusal must come no earlier than arrival + timeout and no
		// later than enqueue + timeout
		if slow {
			w.Gate.Hook = func(e inject.GateEvent) {
				if !e.OK && w.WaiterByGoID(e.GoID) != nil {
					time.Sleep(slowBy)
				}
			}
			w.OnPoint("queue.after_push", func(wt *blk.Waiter) {
				if wt != nil {
					pushedAt = w.Now()
				}
			})
		}
		busyBefore = w.Strat.GetBusyCount()
		viaDeadline = cancelAt > arrive && r.IntN(2) == 0 // the context ends by its own deadline instead of an explicit cancel
		if cm == "before-arrival" {
			// spawn with an already-cancelled context
			wt = spawnCancelled(w)
		} else if viaDeadline {
			wt = w.SpawnDeadline(cancelAt)
		} else {
			wt = w.Spawn()
			if cm == "at-arrival" {
				w.CancelWaiter(wt)
			}
		}
		w.Quiesce()
		if cancelAt > arrive {
			time.Sleep(cancelAt - w.Now())
			// at-bound: the timer of the call and this goroutine wake at the same virtual instant
			if !viaDeadline {
				w.CancelWaiter(wt)
			} else {
				w.Tracef("context deadline of waiter %d reached", wt.ID)
			}
			w.Quiesce()
		}
		horizon := expected
		if bound > horizon {
			horizon = bound
		}
		if cancelAt > horizon {
			horizon = cancelAt
		}
		if slow {
			horizon += 3 * slowBy
		}
		if horizon+1 > w.Now() {
			time.Sleep(horizon + 1 - w.Now())
		}
		w.Quiesce()
		snap = w.Snap("after-every-bound-passed")
		busyAfter = w.Strat.GetBusyCount()
		if wt.Done() && wt.OK {
			busyAfter-- // the token the call holds legitimately
		}
		w.Teardown(held)
		trace = w.Trace()
	})
	rt.Count("scenarios", 1)
	rt.Count("family/"+k.Family, 1)
	if viaDeadline {
		rt.Count("contexts_ending_by_their_own_deadline", 1)
		sc.CancelMode += "(context deadline)"
	}
	fail := func(sig string, extra rt.J) {
		extra["scenario"], extra["expected_return_at"], extra["returned_at"], extra["returned"], extra["ok"], extra["trace"] = sc, expected.String(), wt.Returned.String(), wt.Done(), wt.OK, trace
		extra["snapshot"] = snap
		rt.Violation(fmt.Sprintf("C13/%s/%s", k, sig), idx, extra)
	}
	doneInTime := len(snap.Blocked) == 0 && len(snap.GivingUp) == 0
	if slow {
		rt.Count("slow_delegate_scenarios", 1)
		lo, hi := sc.ArriveAt+k.Timeout, pushedAt+k.Timeout
		switch {
		case !doneInTime:
			fail("blocked-past-its-bound/slow-delegate", rt.J{"enqueued_at": pushedAt.String(), "attempt_duration": slowBy.String()})
		case wt.OK:
			fail("granted-although-bound-reached-without-capacity", rt.J{})
		case pushedAt == 0:
			// refused without ever being enqueued: nothing to bound
		case wt.Returned < lo:
			fail("returned-before-its-bound/slow-delegate", rt.J{"earliest": lo.String()})
		case wt.Returned > hi:
			fail("returned-after-its-bound/slow-delegate", rt.J{"latest": hi.String()})
		default:
			rt.Distinct(fmt.Sprintf("slow|%s|%v|%v", k, sc.ArriveAt, slowBy))
		}
		return
	}
	switch {
	case expectGrant && expectRefusedAt:
		if !doneInTime || !wt.OK || wt.Returned != expected {
			fail("free-capacity-not-granted-immediately", rt.J{})
			return
		}
	case expectGrant: // at the deadline with free capacity: immediate, either verdict
		if !doneInTime || wt.Returned != expected {
			fail("call-with-free-capacity-did-not-return-immediately", rt.J{})
			return
		}
		if !wt.OK && busyAfter != busyBefore {
			fail("refused-call-changed-busy-count", rt.J{"busy_before": busyBefore, "busy_after": busyAfter})
			return
		}
		if k.Family == "deadline" && sc.ArriveAt == k.Timeout {
			rt.Count("calls_exactly_at_the_deadline", 1)
		}
	case !expectRefusedAt:
		if doneInTime {
			fail("returned-although-no-bound-applies-and-no-capacity-offered", rt.J{})
			return
		}
		rt.Count("calls_correctly_still_blocked", 1)
	default:
		if !doneInTime {
			fail("blocked-past-its-bound/cancel="+cm, rt.J{})
			return
		}
		if wt.OK || wt.L != nil {
			fail("granted-although-bound-reached-without-capacity", rt.J{})
			return
		}
		if wt.Returned < expected {
			fail("returned-before-its-bound/cancel="+cm, rt.J{})
			return
		}
		if wt.Returned > expected {
			fail("returned-after-its-bound/cancel="+cm, rt.J{})
			return
		}
		rt.Count("exact_return_instants_checked", 1)
		if k.Family == "deadline" && sc.ArriveAt == k.Timeout {
			rt.Count("calls_exactly_at_the_deadline", 1)
		}
		if busyAfter != busyBefore {
			fail("refused-call-changed-busy-count", rt.J{"busy_before": busyBefore, "busy_after": busyAfter})
			return
		}
		rt.Count("refused_calls_hold_nothing_checks", 1)
	}
	rt.Distinct(fmt.Sprintf("%s|%v|%s|%s|%v|%v", k, exhausted, cm, am, sc.ArriveAt, sc.CancelAt))
	if rt.WantSample() && idx%43 == 11 {
		rt.Sample(rt.J{"scenario": sc, "expected_return_at": expected.String(), "returned_at": wt.Returned.String(), "ok": wt.OK, "trace": trace})
	}
}

// afterCancelledWaiter: capacity 1 exhausted and never released.  A first caller blocks and its context is cancelled
// well before any bound; later a second caller arrives.  What happened to the first caller is no business of the
// second: it is refused at exactly its own bound (backlog time-out from its arrival, the limiter's deadline) or, for
// the blocking limiter, stays blocked.
func afterCancelledWaiter(t *testing.T, idx int64, r *rand.Rand, kindIdx int) {
	T := time.Duration(20+r.IntN(2000)) * time.Millisecond
	k := kinds(r, T)[kindIdx]
	if k.Timeout < 0 {
		return
	}
	var snap blk.Snapshot
	var second *blk.Waiter
	var expected time.Duration
	var trace []string
	rt.Scenario(fmt.Sprintf("C13/%s/after-a-cancelled-waiter", k), idx, rt.J{"kind": k})
	defer rt.ScenarioDone()
	bubble(t, func(t *testing.T) {
		w := blk.NewWorld(k, 1)
		held := w.Hold(1)
		t0 := time.Duration(r.Int64N(int64(T) / 8))
		tc := t0 + 1 + time.Duration(r.Int64N(int64(T)/8))
		t1 := tc + 1 + time.Duration(r.Int64N(int64(T)/4))
		time.Sleep(t0)
		first := w.Spawn()
		w.Quiesce()
		time.Sleep(tc - w.Now())
		w.CancelWaiter(first)
		w.Quiesce()
		time.Sleep(t1 - w.Now())
		second = w.Spawn()
		w.Quiesce()
		switch k.Family {
		case "queue":
			expected = second.Arrived + T
		case "deadline":
			expected = T
		default:
			expected = 0 // blocking: no bound applies
		}
		horizon := t1 + 2*T
		if expected+1 > horizon {
			horizon = expected + 1
		}
		time.Sleep(horizon - w.Now())
		w.Quiesce()
		snap = w.Snap("after-the-second-callers-bound")
		w.Teardown(held)
		trace = w.Trace()
	})
	if second == nil {
		return
	}
	rt.Count("after_cancelled_waiter_scenarios", 1)
	fail := func(sig string) {
		rt.Violation(fmt.Sprintf("C13/%s/after-a-cancelled-waiter/%s", k, sig), idx, rt.J{"kind": k, "expected_return_at": expected.String(), "returned_at": second.Returned.String(),
			"ok": second.OK, "snapshot": snap, "trace": trace})
	}
	stillIn := false
	for _, id := range append(append([]int{}, snap.Blocked...), snap.GivingUp...) {
		stillIn = stillIn || id == second.ID
	}
	switch {
	case expected == 0:
		if !stillIn {
			fail("second-caller-returned-although-no-bound-applies-and-no-capacity-offered")
		}
	case stillIn:
		fail("second-caller-blocked-past-its-bound")
	case second.OK:
		fail("second-caller-granted-although-no-capacity-was-offered")
	case second.Returned < expected:
		fail("second-caller-returned-before-its-bound")
	case second.Returned > expected:
		fail("second-caller-returned-after-its-bound")
	}
	rt.Distinct(fmt.Sprintf("acw|%s|%v", k, expected))
}

// cancelNewest: two or three callers blocked on one limiter, nothing is released; the context of one that is NOT the
// longest-waiting ends.  That caller is refused at that instant (where cancellation is honoured at all), the others
// stay blocked.
func cancelNewest(t *testing.T, idx int64, r *rand.Rand) {
	T := time.Duration(200+r.IntN(2000)) * time.Millisecond
	k := []blk.Kind{
		{Family: "blocking", Timeout: 0},
		{Family: "blocking", Timeout: time.Hour},
		{Family: "deadline", Timeout: time.Hour},
		{Family: "queue", Ordering: "fifo", Evict: true, Backlog: 5, Timeout: time.Hour},
		{Family: "queue", Ordering: "lifo", Evict: true, Backlog: 5, Timeout: -1},
	}[r.IntN(5)]
	n := 2 + r.IntN(2)
	victim := 1 + r.IntN(n-1)
	var ws []*blk.Waiter
	var cancelAt time.Duration
	var snap blk.Snapshot
	var trace []string
	rt.Scenario(fmt.Sprintf("C13/%s/cancel-of-a-caller-that-is-not-the-longest-waiting", k), idx, rt.J{"kind": k})
	defer rt.ScenarioDone()
	bubble(t, func(t *testing.T) {
		w := blk.NewWorld(k, 1)
		held := w.Hold(1)
		for i := 0; i < n; i++ {
			time.Sleep(time.Duration(1 + r.Int64N(int64(T)/16)))
			ws = append(ws, w.Spawn())
			w.Quiesce()
		}
		time.Sleep(time.Duration(1 + r.Int64N(int64(T)/4)))
		cancelAt = w.Now()
		w.CancelWaiter(ws[victim])
		w.Quiesce()
		time.Sleep(T)
		w.Quiesce()
		snap = w.Snap("after-the-cancellation")
		w.Teardown(held)
		trace = w.Trace()
	})
	if len(ws) != n {
		return
	}
	rt.Count("cancel_of_a_newer_waiter_scenarios", 1)
	v := ws[victim]
	if !v.Done() || v.OK || v.Returned != cancelAt {
		rt.Violation(fmt.Sprintf("C13/%s/cancelled-caller-not-refused-at-the-instant-of-cancellation/others-still-waiting", k), idx, rt.J{"kind": k, "callers_blocked": n,
			"cancelled_caller(arrival index)": victim, "cancelled_at": cancelAt.String(), "returned": v.Done(), "returned_at": v.Returned.String(), "ok": v.OK, "snapshot": snap, "trace": trace})
		return
	}
	for i, o := range ws {
		if i == victim {
			continue
		}
		still := false
		for _, id := range append(append([]int{}, snap.Blocked...), snap.GivingUp...) {
			still = still || id == o.ID
		}
		if !still {
			rt.Violation(fmt.Sprintf("C13/%s/another-callers-cancellation-ended-this-callers-wait", k), idx, rt.J{"kind": k, "caller": i, "cancelled_caller": victim, "snapshot": snap, "trace": trace})
			return
		}
	}
	rt.Distinct(fmt.Sprintf("cn|%s|%d|%d", k, n, victim))
}

// fixedPoolBound: an ordered fixed pool (pool.NewFixedPool, its own inner limiter) with every unit held: a further caller
// is refused at exactly the pool's time-out (one second when the argument is 0 or negative), whatever the window
// arguments are.
func fixedPoolBound(t *testing.T, idx int64, r *rand.Rand) {
	ord := []pool.Ordering{pool.OrderingFIFO, pool.OrderingLIFO}[r.IntN(2)]
	tArg := time.Duration(1+r.IntN(5000)) * time.Millisecond
	want := tArg
	if r.IntN(3) == 0 {
		tArg, want = []time.Duration{0, -1}[r.IntN(2)], time.Second
	}
	minW := time.Duration(1+r.IntN(400)) * time.Millisecond
	maxW := minW + time.Duration(r.IntN(400))*time.Millisecond
	L := 1 + r.IntN(3)
	var returnedAt time.Duration
	var done atomic.Bool
	var ok bool
	rt.Scenario(fmt.Sprintf("C13/fixed-pool-%v", ord), idx, rt.J{"timeout_argument": tArg.String()})
	defer rt.ScenarioDone()
	bubble(t, func(t *testing.T) {
		fp, err := pool.NewFixedPool("c13", ord, L, -1, minW, maxW, -1, 5, tArg, nil, nil)
		if err != nil {
			panic(err)
		}
		var held []core.Listener
		for i := 0; i < L; i++ {
			l, granted := fp.Acquire(context.Background())
			if !granted {
				panic("c13: unit refused")
			}
			held = append(held, l)
		}
		time.Sleep(time.Duration(r.IntN(1000)) * time.Millisecond)
		t0 := time.Now()
		go func() {
			var l core.Listener
			l, ok = fp.Acquire(context.Background())
			returnedAt = time.Since(t0)
			if ok && l != nil {
				l.OnIgnore()
			}
			done.Store(true)
		}()
		time.Sleep(want + 10*time.Second)
		synctest.Wait()
		for _, l := range held {
			l.OnIgnore()
		}
		synctest.Wait()
	})
	rt.Count("fixed_pool_bound_cases", 1)
	if !done.Load() || ok || returnedAt != want {
		rt.Violation(fmt.Sprintf("C13/fixed-pool-%v/blocked-caller-not-refused-at-the-pool-timeout", ord), idx, rt.J{"limit": L, "timeout_argument": tArg.String(), "expected_refusal_after": want.String(),
			"returned": done.Load(), "granted": ok, "returned_after": returnedAt.String(), "min_window": minW.String(), "max_window": maxW.String()})
		return
	}
	rt.Distinct(fmt.Sprintf("fpb|%v|%v|%v", ord, tArg, maxW))
}

// cancelAtHandoff: queue limiter with eviction on.  A holder completes before the caller's bound and, while that
// release is handing the unit over (verif point before the hand-off), the caller's context is cancelled.  Granted or
// refused - the call returns at that instant, and nothing is left stuck behind it.
func cancelAtHandoff(t *testing.T, idx int64, r *rand.Rand) {
	T := time.Duration(20+r.IntN(2000)) * time.Millisecond
	k := blk.Kind{Family: "queue", Ordering: []string{"fifo", "lifo"}[r.IntN(2)], Evict: true, Backlog: 5, Timeout: []time.Duration{T, -1}[r.IntN(2)]}
	var wt *blk.Waiter
	var rel time.Duration
	var snap blk.Snapshot
	var fin blk.Final
	var trace []string
	rt.Scenario(fmt.Sprintf("C13/%s/cancel-at-handoff", k), idx, rt.J{"kind": k})
	defer rt.ScenarioDone()
	bubble(t, func(t *testing.T) {
		w := blk.NewWorld(k, 1)
		held := w.Hold(1)
		arrive := time.Duration(r.Int64N(int64(T) / 8))
		rel = arrive + 1 + time.Duration(r.Int64N(int64(T)/2))
		time.Sleep(arrive)
		wt = w.Spawn()
		w.Quiesce()
		time.Sleep(rel - w.Now())
		yields := []int{50, 500}[r.IntN(2)]
		if r.IntN(2) == 0 {
			w.OnPoint("queue.before_handoff", func(*blk.Waiter) {
				w.CancelWaiter(wt)
				for i := 0; i < yields; i++ {
					runtime.Gosched()
				}
			})
		} else {
			// the context ends and the holder completes at once, in that order, with nothing in between: the release finds a
			// next-in-line caller whose context is done but that has not left the backlog yet
			if r.IntN(2) == 0 {
				w.Spawn() // a second caller queued behind (or, LIFO, in front of) it
				w.Quiesce()
			}
			w.CancelWaiter(wt)
			rt.Count("cancel_immediately_followed_by_release_scenarios", 1)
		}
		w.Release(held[0], []string{"success", "ignore", "dropped"}[r.IntN(3)])
		w.Quiesce()
		snap = w.Snap("after-release-with-cancellation-at-the-hand-off")
		fin = w.Teardown(nil)
		trace = w.Trace()
	})
	rt.Count("cancel_at_handoff_scenarios", 1)
	if wt == nil {
		return
	}
	if !wt.Done() || wt.Returned != rel || len(fin.Unreturned) > 0 {
		rt.Violation(fmt.Sprintf("C13/%s/cancel-at-handoff/call-did-not-return-at-the-instant-of-release-and-cancellation", k), idx, rt.J{"kind": k, "release_and_cancel_at": rel.String(),
			"returned": wt.Done(), "returned_at": wt.Returned.String(), "ok": wt.OK, "snapshot": snap, "final": fin, "trace": trace})
		return
	}
	rt.Distinct(fmt.Sprintf("cah|%s|%v|%v", k, rel, wt.OK))
}

// twoWaiters: capacity 1 exhausted, two callers blocked, one release strictly before every bound; the winner keeps the
// token, the loser must still be refused at exactly its own bound (not at a bound re-armed by the wake-up it lost).
func twoWaiters(t *testing.T, idx int64, r *rand.Rand, kindIdx int) {
	T := time.Duration(20+r.IntN(2000)) * time.Millisecond
	k := kinds(r, T)[kindIdx]
	var trace []string
	var loser *blk.Waiter
	var expected time.Duration
	var snap blk.Snapshot
	stillBlockedIsRight := false
	var a [2]time.Duration
	var rel, cancelAt time.Duration
	rt.Scenario(fmt.Sprintf("C13/%s/two-waiters", k), idx, rt.J{"kind": k})
	defer rt.ScenarioDone()
	bubble(t, func(t *testing.T) {
		w := blk.NewWorld(k, 1)
		held := w.Hold(1)
		a[0] = time.Duration(r.Int64N(int64(T) / 8))
		a[1] = a[0] + 1 + time.Duration(r.Int64N(int64(T)/8))
		rel = a[1] + 1 + time.Duration(r.Int64N(int64(T)/4))
		time.Sleep(a[0])
		w0 := w.Spawn()
		w.Quiesce()
		time.Sleep(a[1] - w.Now())
		w1 := w.Spawn()
		w.Quiesce()
		time.Sleep(rel - w.Now())
		w.Release(held[0], []string{"success", "ignore", "dropped"}[r.IntN(3)])
		held = nil
		w.Quiesce()
		switch {
		case w0.Done() && w0.OK && !w1.Done():
			loser = w1
		case w1.Done() && w1.OK && !w0.Done():
			loser = w0
		default:
			rt.Violation(fmt.Sprintf("C13/%s/two-waiters/release-did-not-grant-exactly-one", k), idx, rt.J{"trace": w.Trace()})
			w.Teardown(nil)
			return
		}
		switch k.Family {
		case "queue":
			expected = loser.Arrived + T
		case "deadline":
			expected = T
		default: // blocking: only cancellation bounds it
			cancelAt = rel + 1 + time.Duration(r.Int64N(int64(T)))
			expected = cancelAt
			if r.IntN(3) == 0 {
				cancelAt, stillBlockedIsRight = 0, true
				expected = rel + 2*T
			}
		}
		if cancelAt > 0 {
			time.Sleep(cancelAt - w.Now())
			w.CancelWaiter(loser)
			w.Quiesce()
		}
		if expected+1 > w.Now() {
			time.Sleep(expected + 1 - w.Now())
		}
		w.Quiesce()
		snap = w.Snap("after-the-losers-bound")
		w.Teardown(nil)
		trace = w.Trace()
	})
	if loser == nil {
		return
	}
	rt.Count("two_waiter_scenarios", 1)
	fail := func(sig string) {
		rt.Violation(fmt.Sprintf("C13/%s/two-waiters/%s", k, sig), idx, rt.J{"kind": k, "arrivals": []string{a[0].String(), a[1].String()}, "release_at": rel.String(),
			"loser": loser.ID, "expected_return_at": expected.String(), "returned_at": loser.Returned.String(), "returned": loser.Done(), "ok": loser.OK, "snapshot": snap, "trace": trace})
	}
	stillIn := false
	for _, id := range append(append([]int{}, snap.Blocked...), snap.GivingUp...) {
		if id == loser.ID {
			stillIn = true
		}
	}
	switch {
	case stillBlockedIsRight:
		if !stillIn {
			fail("loser-returned-although-no-bound-applies")
			return
		}
	case stillIn:
		fail("loser-blocked-past-its-bound")
		return
	case loser.OK:
		fail("loser-granted-although-the-winner-still-holds-the-token")
		return
	case loser.Returned != expected:
		if loser.Returned < expected {
			fail("loser-returned-before-its-bound")
		} else {
			fail("loser-returned-after-its-bound")
		}
		return
	}
	rt.Distinct(fmt.Sprintf("two|%s|%v|%v|%v", k, a, rel, cancelAt))
}

// farDeadline: deadline limiters whose deadline is an "effectively never" instant (beyond what fits into 64-bit
// nanoseconds since 1970).  Such a deadline is a bound like any other: free capacity is granted, a blocked call
// does not return before its context ends or capacity is offered, and then returns at that instant.
func farDeadline(t *testing.T, idx int64, r *rand.Rand) {
	names := []string{"now+MaxInt64ns", "9999-12-31", "2263-01-01", "2500-01-01", "unix(1<<40)", "now+290y"}
	which := r.IntN(len(names))
	exhausted := r.IntN(4) != 0
	end := []string{"cancel", "context-deadline", "release"}[r.IntN(3)]
	wait := time.Duration(1 + r.Int64N(int64(3*time.Hour)))
	sig := ""
	var detail rt.J
	bubble(t, func(t *testing.T) {
		start := time.Now()
		far := []time.Time{start.Add(time.Duration(math.MaxInt64)), time.Date(9999, 12, 31, 0, 0, 0, 0, time.UTC), time.Date(2263, 1, 1, 0, 0, 0, 0, time.UTC),
			time.Date(2500, 1, 1, 0, 0, 0, 0, time.UTC), time.Unix(1<<40, 0), start.Add(290 * 365 * 24 * time.Hour)}[which]
		dl, err := limiter.NewDefaultLimiter(limit.NewFixedLimit("c13", 1, nil), 1e9, 1e9, 1e5, 100, strategy.NewSimpleStrategy(1), limit.NoopLimitLogger{}, core.EmptyMetricRegistryInstance)
		if err != nil {
			panic(err)
		}
		lim := limiter.NewDeadlineLimiter(dl, far, nil)
		fail := func(s string, d rt.J) {
			if sig == "" {
				sig, detail = s, d
			}
		}
		first, ok := lim.Acquire(context.Background())
		if !ok || first == nil {
			fail("free-capacity-refused-long-before-the-deadline", rt.J{})
			return
		}
		if !exhausted {
			first.OnSuccess()
			return
		}
		ctx, cancel := context.WithCancel(context.Background())
		if end == "context-deadline" {
			ctx, cancel = context.WithDeadline(context.Background(), start.Add(wait))
		}
		defer cancel()
		var done atomic.Bool
		var gotOK bool
		var got core.Listener
		var at time.Duration
		go func() {
			got, gotOK = lim.Acquire(ctx)
			at = time.Since(start)
			done.Store(true)
		}()
		synctest.Wait()
		if done.Load() {
			fail("returned-before-its-bound/far-deadline", rt.J{"returned_at": at.String(), "ok": gotOK})
			first.OnSuccess()
			return
		}
		time.Sleep(wait - 1)
		synctest.Wait()
		if done.Load() {
			fail("returned-before-its-bound/far-deadline", rt.J{"returned_at": at.String(), "ok": gotOK})
			first.OnSuccess()
			return
		}
		time.Sleep(1)
		switch end {
		case "cancel":
			cancel()
		case "release":
			first.OnSuccess()
			first = nil
		}
		synctest.Wait()
		switch {
		case !done.Load():
			fail("blocked-past-its-bound/far-deadline", rt.J{"ended_by": end})
		case at != wait:
			fail("returned-at-the-wrong-instant/far-deadline", rt.J{"returned_at": at.String(), "expected": wait.String()})
		case end == "release" && (!gotOK || got == nil):
			fail("offered-capacity-not-granted/far-deadline", rt.J{})
		case end != "release" && (gotOK || got != nil):
			fail("granted-although-bound-reached-without-capacity", rt.J{})
		}
		cancel()
		if got != nil {
			got.OnSuccess()
		}
		if first != nil {
			first.OnSuccess()
		}
		synctest.Wait()
		// one more completion broadcasts to whatever helper is still subscribed
		if l, ok := lim.Acquire(context.Background()); ok {
			l.OnIgnore()
		}
		synctest.Wait()
	})
	rt.Count("far_deadline_scenarios", 1)
	if sig != "" {
		detail["deadline"], detail["capacity_exhausted"], detail["wait"], detail["ended_by"] = names[which], exhausted, wait.String(), end
		rt.Violation("C13/deadline/"+sig, idx, detail)
		return
	}
	rt.Distinct(fmt.Sprintf("far|%s|%v|%s|%v", names[which], exhausted, end, wait))
}

// releaseInProgress (real time): a holder's completion is in progress - the delegate's listener is slow to give the unit
// back - when another caller arrives at the exhausted blocking / deadline limiter; that caller's context is then
// cancelled (blocking) or the limiter's deadline passes (deadline).  Its bound holds regardless of the completion in
// progress: it returns (refused) while the slow release is still waiting for it.  The slow release waits for the
// caller's return for at most 5 s; only a caller found blocked on a mutex inside the limiter at that point is a
// violation, anything else is inconclusive.
func releaseInProgress(idx int64, r *rand.Rand) {
	family := []string{"blocking-timeout0", "blocking-timeoutT", "deadline", "queue-evict", "queue-timeout"}[r.IntN(5)]
	dl, err := limiter.NewDefaultLimiter(limit.NewFixedLimit("c13", 1, nil), 1e9, 1e9, 1e5, 100, strategy.NewSimpleStrategy(1), limit.NoopLimitLogger{}, core.EmptyMetricRegistryInstance)
	if err != nil {
		panic(err)
	}
	gate := inject.NewGate(dl)
	var armed atomic.Bool
	inRelease, callerDone := make(chan struct{}), make(chan struct{})
	gate.BeforeInnerRelease = func(string) {
		if armed.CompareAndSwap(true, false) {
			close(inRelease)
			select {
			case <-callerDone:
			case <-time.After(5 * time.Second):
			}
		}
	}
	var lim core.Limiter
	switch family {
	case "blocking-timeout0":
		lim = limiter.NewBlockingLimiter(gate, 0, nil)
	case "blocking-timeoutT":
		lim = limiter.NewBlockingLimiter(gate, time.Hour, nil)
	case "queue-evict": // bounded by its context (eviction on, backlog time-out disabled)
		lim = limiter.NewQueueBlockingLimiterFromConfig(gate, limiter.QueueLimiterConfig{Ordering: []limiter.QueueOrdering{limiter.OrderingFIFO, limiter.OrderingLIFO}[r.IntN(2)], MaxBacklogTimeout: -1, BacklogEvictDoneCtx: true})
	case "queue-timeout": // bounded by a 20 ms backlog time-out
		lim = limiter.NewQueueBlockingLimiterFromConfig(gate, limiter.QueueLimiterConfig{Ordering: []limiter.QueueOrdering{limiter.OrderingFIFO, limiter.OrderingLIFO}[r.IntN(2)], MaxBacklogTimeout: 20 * time.Millisecond})
	default:
		lim = limiter.NewDeadlineLimiter(gate, time.Now().Add(30*time.Millisecond), nil)
	}
	queue := strings.HasPrefix(family, "queue")
	holder, ok := lim.Acquire(context.Background())
	if !ok {
		rt.Inconclusive("C13 release-in-progress: first unit refused")
		return
	}
	relDone := make(chan struct{})
	ctx, cancel := context.WithCancel(context.Background())
	var gotOK bool
	caller := func() {
		l, ok := lim.Acquire(ctx)
		gotOK = ok
		if l != nil {
			l.OnIgnore()
		}
		close(callerDone)
	}
	if queue {
		// the caller is already parked in the backlog when the completion begins
		go caller()
		time.Sleep(2 * time.Millisecond)
	}
	armed.Store(true)
	go func() { holder.OnSuccess(); close(relDone) }()
	<-inRelease
	if !queue {
		go caller()
	}
	time.Sleep(time.Duration(1+r.IntN(3)) * time.Millisecond)
	if family != "deadline" && family != "queue-timeout" {
		cancel()
	}
	stuck := false
	select {
	case <-callerDone:
	case <-time.After(4 * time.Second):
		buf := make([]byte, 1<<20)
		dump := string(buf[:runtime.Stack(buf, true)])
		for _, g := range strings.Split(dump, "\n\n") {
			if (strings.Contains(g, "sync.(*Mutex).Lock") || strings.Contains(g, "sync.(*RWMutex).Lock")) && strings.Contains(g, "go-concurrency-limits/limiter.") && strings.Contains(g, "c13.releaseInProgress") {
				stuck = true
			}
			if strings.Contains(g, "go-concurrency-limits/limiter.subscribe") && strings.Contains(g, "sync.(*Mutex).Lock") {
				stuck = true
			}
		}
		if !stuck {
			rt.Inconclusive("C13 release-in-progress: caller did not return in 4 s without being blocked on a limiter mutex")
		}
	}
	<-relDone
	cancel()
	<-callerDone
	rt.Count("release_in_progress_cases", 1)
	if stuck {
		rt.Violation("C13/"+family+"/caller-held-past-its-bound-by-a-completion-in-progress", idx, rt.J{"family": family,
			"meaning": "the caller's bound (context end, deadline, backlog time-out) passed while another caller's completion was in progress; it was found blocked on a mutex inside the limiter and returned only after that completion finished"})
		return
	}
	if gotOK && family != "deadline" {
		// the unit was not back yet when the context ended: a grant is only possible after the release finished
	}
	rt.Distinct(fmt.Sprintf("rip|%s|%d", family, idx%7))
}

// spawnCancelled starts a caller whose context is cancelled before Acquire is called.
func spawnCancelled(w *blk.World) *blk.Waiter {
	wt := w.SpawnWith(func(ctx context.Context, cancel context.CancelFunc) { cancel() })
	wt.Cancelled.Store(true)
	return wt
}

var _ = inject.GoID

func TestCheck(t *testing.T) {
	// grid: kind(7) x cancel mode(6) x arrival mode(3, deadline only) x exhausted(2)
	type cell struct {
		k, c, a int
		ex      bool
	}
	var cells []cell
	for k := 0; k < 12; k++ {
		for c := 0; c < 6; c++ {
			for a := 0; a < 4; a++ {
				if a > 0 && k != 2 {
					continue
				}
				cells = append(cells, cell{k, c, a, true}, cell{k, c, a, false})
			}
		}
	}
	rt.Cases(len(cells)*20, len(cells)*5000, func(idx int64) {
		r := rt.CaseRand(13, idx)
		rt.Case()
		if idx%9 == 8 {
			twoWaiters(t, idx, r, r.IntN(7))
			return
		}
		if idx%18 == 4 {
			afterCancelledWaiter(t, idx, r, r.IntN(7))
			return
		}
		if idx%36 == 13 {
			cancelAtHandoff(t, idx, r)
			return
		}
		if idx%36 == 31 {
			cancelNewest(t, idx, r)
			return
		}
		if idx%36 == 20 {
			fixedPoolBound(t, idx, r)
			return
		}
		if idx%45 == 7 {
			farDeadline(t, idx, r)
			return
		}
		if idx%90 == 25 {
			releaseInProgress(idx, r)
			return
		}
		c := cells[int(idx)%len(cells)]
		run(t, idx, r, c.k, c.c, c.a, c.ex)
	})
}

// bubble runs f in a synctest bubble; a bubble that cannot end (goroutines left blocked) is recorded, not fatal.
func bubble(t *testing.T, f func(*testing.T)) {
	rt.Bubble(func() { synctest.Test(t, f) }, "C13")
}
