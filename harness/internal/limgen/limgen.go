// Package limgen generates valid configurations of the built-in limit algorithms and hostile sample
// sequences for the sequential monitors (C04, C06, C07, C08, C15, C16, C20).
package limgen

import (
	"fmt"
	"github.com/platinummonkey/go-concurrency-limits/measurements"
	"math"
	"math/rand/v2"
	"os"

	"github.com/platinummonkey/go-concurrency-limits/core"
	"github.com/platinummonkey/go-concurrency-limits/limit"
	"github.com/platinummonkey/go-concurrency-limits/limit/functions"
)

// Spec is one configuration of one algorithm (JSON-serialisable, so it can be written into witnesses).
type Spec struct {
	Kind      string  `json:"kind"` // aimd | vegas | gradient | gradient2
	Initial   int     `json:"initial"`
	Min       int     `json:"min,omitempty"`
	Max       int     `json:"max,omitempty"`
	Smoothing float64 `json:"smoothing,omitempty"`
	Backoff   float64 `json:"backoff,omitempty"`
	IncBy     int     `json:"increase_by,omitempty"`
	ProbeMult int     `json:"probe_multiplier,omitempty"`
	MaxArg    string  `json:"max_argument,omitempty"`               // "" (Max is passed) | "0" | "-1": the constructor is asked for its default maximum (1000), Max holds 1000
	Debug     bool    `json:"debug_logger,omitempty"`               // built with a logger whose IsDebugEnabled() is true (output discarded)
	NoLoad    string  `json:"vegas_baseline_measurement,omitempty"` // "" (default minimum) | single: a caller-supplied measurements.SingleMeasurement
	Funcs     string  `json:"vegas_custom_functions,omitempty"`     // "" (defaults) | decrease=half | decrease=minus3 | threshold=0 | threshold=-1 | increase=plus2
	QueueKind string  `json:"queue_kind,omitempty"`                 // fixed | sqrt
	QueueArg  int     `json:"queue_arg,omitempty"`
	RTTTol    float64 `json:"rtt_tolerance,omitempty"`
	ProbeInt  int     `json:"probe_interval,omitempty"`
	LongWin   int     `json:"long_window,omitempty"`
}

// Sample is one OnSample call.
type Sample struct {
	Start    int64 `json:"start,omitempty"`
	RTT      int64 `json:"rtt"`
	InFlight int   `json:"inflight"`
	Drop     bool  `json:"drop,omitempty"`
}

// NoLoader is implemented by Vegas and Gradient.
type NoLoader interface{ RTTNoLoad() int64 }

// Queue returns the queue allowance function of a Gradient/Gradient2 spec.
func (s Spec) Queue() func(int) int {
	switch s.QueueKind {
	case "sqrt":
		return functions.SqrtRootFunction(s.QueueArg)
	case "tenth": // a custom allowance that is 0 for small limits
		return func(l int) int { return l / 10 }
	default:
		return functions.FixedQueueSizeFunc(s.QueueArg)
	}
}

// Floor is the lowest estimate the algorithm may report (and the one sustained drops must reach).
func (s Spec) Floor() int {
	switch s.Kind {
	case "gradient":
		f := s.Min
		if s.QueueArg > f && s.QueueKind != "tenth" {
			f = s.QueueArg
		}
		if f < 1 {
			f = 1
		}
		return f
	case "gradient2":
		if s.Min < 1 {
			return 1
		}
		return s.Min
	}
	return 1
}

// LowerBound is the C04 lower bound max(1, min).
func (s Spec) LowerBound() int {
	if s.Min > 1 {
		return s.Min
	}
	return 1
}

// Ceil is max(maxLimit, initial); AIMD has no ceiling (returns 0).
func (s Spec) Ceil() int {
	if s.Kind == "aimd" {
		return 0
	}
	if s.Initial > s.Max {
		return s.Initial
	}
	return s.Max
}

// DebugLogger is a limit.Logger with debug enabled that discards its output.
type DebugLogger struct{}

// Debugf implements limit.Logger.
func (DebugLogger) Debugf(string, ...interface{}) {}

// IsDebugEnabled implements limit.Logger.
func (DebugLogger) IsDebugEnabled() bool { return true }

func (s Spec) logger() limit.Logger {
	if s.Debug {
		return DebugLogger{}
	}
	return nil
}

func (s Spec) maxArg() int {
	switch s.MaxArg {
	case "0":
		return 0
	case "-1":
		return -1
	}
	return s.Max
}

// WithDefaultMax turns the spec into one that asks the constructor for its default maximum (Vegas, Gradient: 1000).
func (s Spec) WithDefaultMax(arg string) Spec {
	s.MaxArg, s.Max = arg, 1000
	return s
}

// New builds a fresh instance.
func (s Spec) New(reg core.MetricRegistry, name string, tags ...string) core.Limit {
	switch s.Kind {
	case "aimd":
		return limit.NewAIMDLimit(name, s.Initial, s.Backoff, s.IncBy, reg, tags...)
	case "vegas":
		var thr func(int) int
		var inc, dec func(float64) float64
		switch s.Funcs {
		case "decrease=half":
			dec = func(l float64) float64 { return l / 2 }
		case "decrease=minus3":
			dec = func(l float64) float64 { return l - 3 }
		case "threshold=0":
			thr = func(int) int { return 0 }
		case "threshold=-1":
			thr = func(int) int { return -1 }
		case "increase=plus2":
			inc = func(l float64) float64 { return l + 2 }
		case "increase=capped": // a soft cap: the moderate step stops growing at 50 (the aggressive +beta step is not affected)
			inc = func(l float64) float64 { return math.Min(l+1, 50) }
		case "increase=none": // the moderate step switched off
			inc = func(l float64) float64 { return l }
		}
		var noLoad core.MeasurementInterface
		if s.NoLoad == "single" {
			noLoad = &measurements.SingleMeasurement{}
		}
		return limit.NewVegasLimitWithRegistry(name, s.Initial, noLoad, s.maxArg(), s.Smoothing, nil, nil, thr, inc, dec,
			s.ProbeMult, s.logger(), reg, tags...)
	case "gradient":
		return limit.NewGradientLimitWithRegistry(name, s.Initial, s.Min, s.maxArg(), s.Smoothing, s.Queue(), s.RTTTol,
			s.ProbeInt, s.logger(), reg, tags...)
	case "gradient2":
		l, err := limit.NewGradient2Limit(name, s.Initial, s.Max, s.Min, s.Queue(), s.Smoothing, s.LongWin, s.logger(), reg, tags...)
		if err != nil {
			panic(fmt.Sprintf("gradient2 spec %+v: %v", s, err))
		}
		return l
	}
	panic("kind " + s.Kind)
}

// TryNew is New for configurations a constructor is free to refuse (Gradient2 returns an error): nil, err in that case.
func (s Spec) TryNew(reg core.MetricRegistry, name string, tags ...string) (core.Limit, error) {
	if s.Kind == "gradient2" {
		l, err := limit.NewGradient2Limit(name, s.Initial, s.Max, s.Min, s.Queue(), s.Smoothing, s.LongWin, s.logger(), reg, tags...)
		if err != nil {
			return nil, err
		}
		return l, nil
	}
	return s.New(reg, name, tags...), nil
}

// LargeTables reports whether this process was started with the pre-computed log10 / sqrt tables enlarged through
// the library's environment variables (the driver does that for one shard in four).
func LargeTables() bool {
	return os.Getenv("GO_CONCURRENCY_LIMIT_LOG10ROOT_PRE_COMPUTE") != "" || os.Getenv("GO_CONCURRENCY_LIMIT_SQRT_PRE_COMPUTE") != ""
}

// VegasFuncs are the caller-supplied step / threshold functions a Vegas spec may carry (constructor arguments).
var VegasFuncs = []string{"decrease=half", "decrease=minus3", "threshold=0", "threshold=-1", "increase=plus2", "increase=capped", "increase=none"}

// Kinds lists the adaptive algorithms.
var Kinds = []string{"aimd", "vegas", "gradient", "gradient2"}

// Opts restricts the configuration domain.
type Opts struct {
	Bounded bool // domain of the bounded-progress checks: smoothing >= 0.05, max <= 300, probe multiplier >= 5, ...
	NoProbe bool // gradient: allow ProbeDisabled
}

func smoothing(r *rand.Rand, bounded bool) float64 {
	switch r.IntN(5) {
	case 0:
		return 1
	case 1, 2:
		// decimal grid: values whose binary rounding interacts with integer limits (fixed points one ulp below an integer)
		return []float64{0.5, 0.25, 0.2, 0.1, 0.05, 0.15, 0.3, 0.4, 0.6, 0.7, 0.8, 0.9}[r.IntN(12)]
	}
	lo := 0.01
	if bounded {
		lo = 0.05
	}
	return lo + (1-lo)*r.Float64()
}

// Dyadic and decimal back-off ratios in (0,1].
func backoff(r *rand.Rand) float64 {
	switch r.IntN(3) {
	case 0:
		return float64(1+r.IntN(32)) / 32
	case 1:
		return float64(1+r.IntN(100)) / 100
	}
	return 0.01 + 0.99*r.Float64()
}

// Gen draws a valid configuration: min <= initial, min <= max, smoothing in (0,1], backoff in (0,1],
// queue allowance <= max, initial >= floor (DESIGN 6 C06 domain note); initial above max is included.
func Gen(r *rand.Rand, kind string, o Opts) Spec {
	maxCap := 1000
	if o.Bounded {
		maxCap = 300
	}
	if o.Bounded && LargeTables() && kind == "vegas" && r.IntN(2) == 0 {
		// the process was started with enlarged lookup tables: exercise estimates beyond the default table size
		mx := 1001 + r.IntN(3000)
		return Spec{Kind: "vegas", Max: mx, Initial: mx - r.IntN(100), Smoothing: []float64{1, 0.5}[r.IntN(2)], ProbeMult: 30}
	}
	if !o.Bounded && r.IntN(8) == 0 {
		maxCap = 5000 // beyond the lookup tables
	}
	s := Spec{Kind: kind}
	switch kind {
	case "aimd":
		s.Initial = 1 + r.IntN(200)
		s.Backoff = backoff(r)
		s.IncBy = 1 + r.IntN(4)
	case "vegas":
		s.Max = 1 + r.IntN(maxCap)
		s.Initial = 1 + r.IntN(s.Max)
		if r.IntN(10) == 0 {
			s.Initial = s.Max + 1 + r.IntN(50) // initial above max
		}
		s.Smoothing = smoothing(r, o.Bounded)
		s.ProbeMult = []int{5, 10, 30, 100}[r.IntN(4)]
		if !o.Bounded && r.IntN(6) == 0 {
			s.ProbeMult = 1 + r.IntN(4)
		}
	case "gradient", "gradient2":
		if r.IntN(2) == 0 {
			s.QueueKind, s.QueueArg = "fixed", 1+r.IntN(8)
		} else {
			s.QueueKind, s.QueueArg = "sqrt", 1+r.IntN(8)
		}
		s.Min = 1 + r.IntN(10)
		if r.IntN(3) == 0 {
			s.Min = 1 + r.IntN(100)
		}
		floor := s.Min
		if s.QueueArg > floor {
			floor = s.QueueArg
		}
		// max >= floor and, for sqrt, >= isqrt(max) trivially
		s.Max = floor + r.IntN(maxCap)
		s.Initial = floor + r.IntN(s.Max-floor+1)
		if r.IntN(10) == 0 {
			s.Initial = s.Max + 1 + r.IntN(50)
		}
		s.Smoothing = smoothing(r, o.Bounded)
		if kind == "gradient" {
			s.RTTTol = []float64{1, 1.5, 2, 3}[r.IntN(4)]
			s.ProbeInt = []int{3, 10, 50, 1000}[r.IntN(4)]
			if o.NoProbe && r.IntN(5) == 0 {
				s.ProbeInt = limit.ProbeDisabled
			}
		} else {
			s.LongWin = 1 + r.IntN(200)
			if !o.Bounded && r.IntN(5) == 0 {
				s.LongWin = 1 + r.IntN(1000)
			}
		}
	}
	return s
}

// Hostile draws one sample from the hostile mix of C04: rtt in {0, 1, = baseline, log-uniform to 2^62},
// in-flight in {0, 1, ~est/2, est, large, 2^31-1}, drops with probability pDrop.
func Hostile(r *rand.Rand, est int, baseline int64, pDrop float64) Sample {
	var s Sample
	switch r.IntN(8) {
	case 0:
		s.RTT = 0
	case 1:
		s.RTT = 1
	case 2, 3:
		s.RTT = baseline
	case 4:
		s.RTT = int64(1) << uint(r.IntN(63))
	default:
		s.RTT = int64(math.Exp2(r.Float64() * 40))
	}
	if s.RTT < 0 {
		s.RTT = 0
	}
	if est < 0 {
		est = 0
	}
	if est > 1<<30 {
		est = 1 << 30
	}
	switch r.IntN(8) {
	case 0:
		s.InFlight = 0
	case 1:
		s.InFlight = 1
	case 2:
		s.InFlight = est/2 - 1 + r.IntN(3)
	case 3, 4:
		s.InFlight = est
	case 5:
		s.InFlight = est + 1 + r.IntN(10)
	case 6:
		s.InFlight = math.MaxInt32
	default:
		s.InFlight = r.IntN(2*est + 2)
	}
	if s.InFlight < 0 {
		s.InFlight = 0
	}
	s.Drop = r.Float64() < pDrop
	return s
}

// Benign draws a realistic sample around a base RTT.
func Benign(r *rand.Rand, est int, base int64, pDrop float64) Sample {
	if est < 1 {
		est = 1
	}
	s := Sample{RTT: base + r.Int64N(base*2+1), InFlight: r.IntN(est + est/2 + 2), Drop: r.Float64() < pDrop}
	if r.IntN(3) == 0 {
		s.InFlight = est
	}
	return s
}

// Baseline reads the no-load RTT if the limit exposes one.
func Baseline(l core.Limit) int64 {
	if n, ok := l.(NoLoader); ok {
		return n.RTTNoLoad()
	}
	return 0
}
