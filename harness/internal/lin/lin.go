// Package lin records client-boundary call/return histories on one logical clock and checks them with porcupine.
package lin

import (
	"runtime"
	"sync"
	"sync/atomic"
	"time"

	"github.com/anishathalye/porcupine"
)

// History is a concurrent-safe recorder.
type History struct {
	clock atomic.Int64
	mu    sync.Mutex
	ops   []porcupine.Operation
}

// Tick returns the next logical timestamp.
func (h *History) Tick() int64 { return h.clock.Add(1) }

// Add appends a completed operation.
func (h *History) Add(client int, in any, call int64, out any, ret int64) {
	h.mu.Lock()
	h.ops = append(h.ops, porcupine.Operation{ClientId: client, Input: in, Call: call, Output: out, Return: ret})
	h.mu.Unlock()
}

// Do records call, runs f, records return.
func (h *History) Do(client int, in any, f func() any) any {
	c := h.Tick()
	out := f()
	r := h.Tick()
	h.Add(client, in, c, out, r)
	return out
}

// Ops returns the recorded operations.
func (h *History) Ops() []porcupine.Operation {
	h.mu.Lock()
	defer h.mu.Unlock()
	return append([]porcupine.Operation(nil), h.ops...)
}

// Overlaps counts pairs of operations of different clients that overlap in (logical) time.
func Overlaps(ops []porcupine.Operation) int {
	n := 0
	for i := range ops {
		for j := i + 1; j < len(ops); j++ {
			if ops[i].ClientId != ops[j].ClientId && ops[i].Call < ops[j].Return && ops[j].Call < ops[i].Return {
				n++
			}
		}
	}
	return n
}

// Check runs porcupine with a timeout: Ok / Illegal / Unknown (= inconclusive).
func Check(m porcupine.Model, ops []porcupine.Operation, timeout time.Duration) (porcupine.CheckResult, porcupine.LinearizationInfo) {
	return porcupine.CheckOperationsVerbose(m, ops, timeout)
}

// Barrier releases n goroutines at (nearly) the same instant by spinning.
type Barrier struct {
	n     int32
	count atomic.Int32
}

// NewBarrier creates a spinning barrier for n parties.
func NewBarrier(n int) *Barrier { return &Barrier{n: int32(n)} }

// Wait spins until all parties arrived.
func (b *Barrier) Wait() {
	b.count.Add(1)
	for b.count.Load() < b.n {
		runtime.Gosched()
	}
}
