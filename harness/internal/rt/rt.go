// Package rt is the runtime of the verification harness: environment (seed, tier, shard), per-case PRNGs,
// and the reporter every monitor writes to (cases, observation counters, distinct shapes, samples,
// violations, inconclusive verdicts).  One JSONL file per child process ($VERIF_OUT); violations are appended
// and synced immediately so that a later runtime fatal cannot lose them, the summary is written by Flush.
package rt

import (
	"encoding/json"
	"fmt"
	"hash/fnv"
	"math/rand/v2"
	"os"
	"runtime"
	"sort"
	"strconv"
	"strings"
	"sync"
	"testing"
	"time"
)

var (
	mu        sync.Mutex
	counters  = map[string]int64{}
	distinct  = map[uint64]struct{}{}
	dsets     = map[string]map[uint64]struct{}{}
	samples   []any
	seenSig   = map[string]int{}
	evals     int64
	inconc    = map[string]int64{}
	outFile   *os.File
	start     = time.Now()
	maxSample = 6
)

func envInt(name string, def int64) int64 {
	if v, ok := os.LookupEnv(name); ok {
		if n, err := strconv.ParseInt(v, 10, 64); err == nil {
			return n
		}
	}
	return def
}

// Seed is VERIF_SEED (default 1).
func Seed() uint64 { return uint64(envInt("VERIF_SEED", 1)) }

// Tier is "quick" or "thorough".
func Tier() string {
	if os.Getenv("VERIF_TIER") == "thorough" {
		return "thorough"
	}
	return "quick"
}

// Thorough reports whether the thorough tier is selected.
func Thorough() bool { return Tier() == "thorough" }

// Shard returns (index, count) of this child process.
func Shard() (int, int) {
	n := int(envInt("VERIF_SHARDS", 1))
	if n < 1 {
		n = 1
	}
	i := int(envInt("VERIF_SHARD", 0))
	if i < 0 || i >= n {
		i = 0
	}
	return i, n
}

// OnlyCase returns the case index selected for replay, or -1.
func OnlyCase() int64 { return envInt("VERIF_ONLY_CASE", -1) }

// Cases enumerates the global case indices of this shard for a tier-dependent total.  The total is scaled by
// VERIF_SCALE (percent) if set.  In replay mode only the selected case is visited.
func Cases(quick, thorough int, f func(idx int64)) {
	total := quick
	if Thorough() {
		total = thorough
	}
	if s := envInt("VERIF_SCALE", 100); s != 100 {
		total = int(int64(total) * s / 100)
		if total < 1 {
			total = 1
		}
	}
	if oc := OnlyCase(); oc >= 0 {
		f(oc)
		return
	}
	sh, n := Shard()
	for i := sh; i < total; i += n {
		f(int64(i))
	}
}

// CaseRand returns the PRNG of one case: a function of (seed, stream, case index) only, so a case can be
// replayed without re-running the ones before it.
func CaseRand(stream uint64, idx int64) *rand.Rand {
	return rand.New(rand.NewPCG(Seed()*0x9E3779B97F4A7C15+stream, uint64(idx)*0xD1342543DE82EF95+stream+1))
}

// Case counts one executed case.
func Case() {
	mu.Lock()
	evals++
	mu.Unlock()
}

// Count adds to an observation counter.
func Count(key string, n int64) {
	mu.Lock()
	counters[key] += n
	mu.Unlock()
}

// Max keeps the maximum of an observation.
func Max(key string, v int64) {
	mu.Lock()
	if cur, ok := counters[key]; !ok || v > cur {
		counters[key] = v
	}
	mu.Unlock()
}

// Distinct registers a non-trivial case shape; the number of distinct shapes is reported.
func Distinct(shape string) {
	h := fnv.New64a()
	h.Write([]byte(shape))
	mu.Lock()
	distinct[h.Sum64()] = struct{}{}
	mu.Unlock()
}

// DistinctIn registers a shape in a named set; the size of each set is reported as observation "distinct:<set>"
// (e.g. distinct interleavings / completion orders / end states actually seen).
func DistinctIn(set, shape string) {
	h := fnv.New64a()
	h.Write([]byte(shape))
	mu.Lock()
	m := dsets[set]
	if m == nil {
		m = map[uint64]struct{}{}
		dsets[set] = m
	}
	m[h.Sum64()] = struct{}{}
	mu.Unlock()
}

// Sample keeps a few cases written out.
func Sample(v any) {
	mu.Lock()
	if len(samples) < maxSample {
		samples = append(samples, v)
	}
	mu.Unlock()
}

// WantSample reports whether more samples are wanted (avoids building them needlessly).
func WantSample() bool {
	mu.Lock()
	defer mu.Unlock()
	return len(samples) < maxSample
}

func open() {
	if outFile != nil {
		return
	}
	p := os.Getenv("VERIF_OUT")
	if p == "" {
		p = os.DevNull
	}
	f, err := os.OpenFile(p, os.O_CREATE|os.O_WRONLY|os.O_APPEND, 0o644)
	if err != nil {
		panic(err)
	}
	outFile = f
}

func emit(rec map[string]any) {
	open()
	b, err := json.Marshal(rec)
	if err != nil {
		b, _ = json.Marshal(map[string]any{"type": "harness_error", "error": err.Error()})
	}
	outFile.Write(append(b, '\n'))
	outFile.Sync()
}

// Violation records a violation with a signature that names the failing site / input class / schedule point.
// At most 3 witnesses per signature are written out, all are counted.
func Violation(sig string, idx int64, detail any) {
	mu.Lock()
	seenSig[sig]++
	n := seenSig[sig]
	mu.Unlock()
	if n > 3 {
		return
	}
	sh, nsh := Shard()
	emit(map[string]any{"type": "violation", "sig": sig, "case": idx, "seed": Seed(), "tier": Tier(),
		"shard": sh, "shards": nsh, "detail": detail})
	fmt.Printf("violation sig=%s case=%d\n", sig, idx)
}

// Violated reports whether any violation was recorded so far.
func Violated() bool {
	mu.Lock()
	defer mu.Unlock()
	return len(seenSig) > 0
}

// Inconclusive records a three-valued verdict's third value.
func Inconclusive(reason string) {
	mu.Lock()
	inconc[reason]++
	mu.Unlock()
}

// Flush writes the summary record.
func Flush() {
	mu.Lock()
	hs := make([]string, 0, len(distinct))
	for h := range distinct {
		hs = append(hs, strconv.FormatUint(h, 36))
	}
	sort.Strings(hs)
	ds := map[string][]string{}
	for name, m := range dsets {
		for h := range m {
			ds[name] = append(ds[name], strconv.FormatUint(h, 36))
		}
	}
	sigs := map[string]int{}
	for k, v := range seenSig {
		sigs[k] = v
	}
	rec := map[string]any{"type": "summary", "evaluations": evals, "counters": counters, "distinct": hs,
		"samples": samples, "distinct_sets": ds, "violation_counts": sigs, "inconclusive": inconc,
		"wall_s": time.Since(start).Seconds()}
	mu.Unlock()
	emit(rec)
}

// Main is the TestMain body of every property package.
func Main(m *testing.M) {
	code := m.Run()
	Flush()
	os.Exit(code)
}

// J is shorthand for a JSON object.
type J = map[string]any

// Bubble runs f in a synctest bubble (through run, which is synctest.Test bound to t by the caller) and reports
// whether the bubble could not end because goroutines of the code under test remained durably blocked after the
// scenario's own teardown.  That is recorded as an inconclusive observation of the scenario (its oracles have
// already run inside f), never silently ignored and never fatal for the other cases of the process.
func Bubble(run func(), what string) (leaked bool) {
	if CurrentScenario() == "" {
		Scenario(what+"/bubble", -1, what)
		defer ScenarioDone()
	}
	defer func() {
		if p := recover(); p != nil {
			msg := fmt.Sprint(p)
			if len(msg) >= 8 && msg[:8] == "deadlock" {
				leaked = true
				Inconclusive("bubble could not end, goroutines remained blocked after teardown (" + what + ")")
				Count("bubbles_that_could_not_end", 1)
				return
			}
			panic(p)
		}
	}()
	run()
	return false
}

// ---- scenario watchdog ------------------------------------------------------------------------------------------
// A scenario that livelocks (a caller busy-loops instead of blocking or returning: goroutines pile up while a
// bubble's virtual clock stands still) or deadlocks on a library mutex can never reach the quiescent point where
// its oracle runs.  The watchdog runs outside every bubble, on the real clock, and only classifies *stable* states:
//   - runaway: the process holds more than 150 000 goroutines                      -> violation <prefix>/livelock-...
//   - the same scenario has been current for 40 s and two goroutine dumps 10 s apart show the same goroutine
//     blocked in sync.(*Mutex|*RWMutex).Lock/RLock under a library frame            -> violation <prefix>/deadlock-...
//   - the same scenario has been current for 120 s without either                   -> inconclusive, process exits
// After reporting, the process exits (the scenario cannot be abandoned from outside).

var (
	scenMu     sync.Mutex
	scenPrefix string
	scenIdx    int64
	scenDetail any
	scenSince  time.Time
	scenSeq    int64
	watchOnce  sync.Once
)

// Scenario marks the start of a scenario (signature prefix such as "C13/deadline") and starts the watchdog.
func Scenario(prefix string, idx int64, detail any) {
	scenMu.Lock()
	scenPrefix, scenIdx, scenDetail, scenSince = prefix, idx, detail, time.Now()
	scenSeq++
	scenMu.Unlock()
	watchOnce.Do(func() { go watchdog() })
}

// ScenarioDone marks the end of the current scenario.
func ScenarioDone() {
	scenMu.Lock()
	scenPrefix = ""
	scenSeq++
	scenMu.Unlock()
}

const libMod = "github.com/platinummonkey/go-concurrency-limits/"

// BlockedOnLibraryMutex maps goroutine headers to the library frame under which they wait for a sync.Mutex / RWMutex.
func BlockedOnLibraryMutex(dump string) map[string]string { return blockedOnLibraryMutex(dump) }

func blockedOnLibraryMutex(dump string) map[string]string {
	out := map[string]string{}
	for _, b := range strings.Split(dump, "\n\n") {
		if !(strings.Contains(b, "sync.(*Mutex).Lock") || strings.Contains(b, "sync.(*RWMutex).Lock") || strings.Contains(b, "sync.(*RWMutex).RLock")) {
			continue
		}
		i := strings.Index(b, libMod)
		if i < 0 {
			continue
		}
		hdr := b
		if j := strings.Index(b, "\n"); j > 0 {
			hdr = b[:j]
		}
		id := hdr
		if j := strings.Index(hdr, " ["); j > 0 {
			id = hdr[:j]
		}
		fr := b[i+len(libMod):]
		if j := strings.IndexAny(fr, "(\n"); j > 0 {
			// keep "pkg.(*T).Method"
			k := strings.Index(fr, "\n")
			if k < 0 {
				k = len(fr)
			}
			fr = fr[:k]
			if p := strings.LastIndex(fr, "("); p > 0 {
				fr = fr[:p]
			}
		}
		out[id] = fr
	}
	return out
}

func watchdog() {
	var lastSeq int64 = -1
	var firstDump map[string]string
	var firstAt time.Time
	for {
		time.Sleep(500 * time.Millisecond)
		scenMu.Lock()
		prefix, idx, detail, since, seq := scenPrefix, scenIdx, scenDetail, scenSince, scenSeq
		scenMu.Unlock()
		if prefix == "" {
			lastSeq, firstDump = -1, nil
			continue
		}
		if seq != lastSeq {
			lastSeq, firstDump = seq, nil
		}
		if n := runtime.NumGoroutine(); n > 150000 {
			Violation(prefix+"/livelock-goroutines-pile-up-scenario-never-quiesces", idx, J{"scenario": detail, "goroutines": n,
				"meaning": "a caller neither blocks nor returns: it spins, spawning helper goroutines, so the scenario never reaches a quiescent point"})
			Flush()
			os.Exit(0)
		}
		age := time.Since(since)
		if age > 40*time.Second {
			buf := make([]byte, 4<<20)
			dump := string(buf[:runtime.Stack(buf, true)])
			cur := blockedOnLibraryMutex(dump)
			if firstDump == nil {
				firstDump, firstAt = cur, time.Now()
			} else if time.Since(firstAt) > 10*time.Second {
				for id, fr := range cur {
					if firstDump[id] == fr {
						if len(dump) > 8000 {
							dump = dump[:8000]
						}
						Violation(prefix+"/deadlock-on-library-mutex/"+fr, idx, J{"scenario": detail, "goroutine": id, "blocked_in": fr,
							"meaning": "the same goroutine has been waiting for a mutex of the library for more than 10 s of real time while the scenario made no progress", "stacks": dump})
						Flush()
						os.Exit(0)
					}
				}
				firstDump, firstAt = cur, time.Now()
			}
		}
		if age > 120*time.Second {
			Inconclusive("scenario " + prefix + " made no progress for 120 s of real time; no livelock / library-mutex deadlock recognised")
			Flush()
			os.Exit(0)
		}
	}
}

// CurrentScenario returns the signature prefix of the scenario in progress ("" if none).
func CurrentScenario() string {
	scenMu.Lock()
	defer scenMu.Unlock()
	return scenPrefix
}
