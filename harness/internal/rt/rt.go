// Package rt is the runtime of the verification harness: environment (seed, tier, shard), per-case PRNGs,
// and the reporter every monitor writes to (cases, observation counters, distinct shapes, samples,
// violations, inconclusive verdicts).  One JSONL file per child process ($VERIF_OUT); violations are appended
// and synced immediately so that a later runtime fatal cannot lose them, the summary is written by Flush.
package rt

import (
	"encoding/json"
	"fmt"
	"hash/fnv"
	"math/rand/v2"
	"os"
	"sort"
	"strconv"
	"sync"
	"testing"
	"time"
)

var (
	mu        sync.Mutex
	counters  = map[string]int64{}
	distinct  = map[uint64]struct{}{}
	dsets     = map[string]map[uint64]struct{}{}
	samples   []any
	seenSig   = map[string]int{}
	evals     int64
	inconc    = map[string]int64{}
	outFile   *os.File
	start     = time.Now()
	maxSample = 6
)

func envInt(name string, def int64) int64 {
	if v, ok := os.LookupEnv(name); ok {
		if n, err := strconv.ParseInt(v, 10, 64); err == nil {
			return n
		}
	}
	return def
}

// Seed is VERIF_SEED (default 1).
func Seed() uint64 { return uint64(envInt("VERIF_SEED", 1)) }

// Tier is "quick" or "thorough".
func Tier() string {
	if os.Getenv("VERIF_TIER") == "thorough" {
		return "thorough"
	}
	return "quick"
}

// Thorough reports whether the thorough tier is selected.
func Thorough() bool { return Tier() == "thorough" }

// Shard returns (index, count) of this child process.
func Shard() (int, int) {
	n := int(envInt("VERIF_SHARDS", 1))
	if n < 1 {
		n = 1
	}
	i := int(envInt("VERIF_SHARD", 0))
	if i < 0 || i >= n {
		i = 0
	}
	return i, n
}

// OnlyCase returns the case index selected for replay, or -1.
func OnlyCase() int64 { return envInt("VERIF_ONLY_CASE", -1) }

// Cases enumerates the global case indices of this shard for a tier-dependent total.  The total is scaled by
// VERIF_SCALE (percent) if set.  In replay mode only the selected case is visited.
func Cases(quick, thorough int, f func(idx int64)) {
	total := quick
	if Thorough() {
		total = thorough
	}
	if s := envInt("VERIF_SCALE", 100); s != 100 {
		total = int(int64(total) * s / 100)
		if total < 1 {
			total = 1
		}
	}
	if oc := OnlyCase(); oc >= 0 {
		f(oc)
		return
	}
	sh, n := Shard()
	for i := sh; i < total; i += n {
		f(int64(i))
	}
}

// CaseRand returns the PRNG of one case: a function of (seed, stream, case index) only, so a case can be
// replayed without re-running the ones before it.
func CaseRand(stream uint64, idx int64) *rand.Rand {
	return rand.New(rand.NewPCG(Seed()*0x9E3779B97F4A7C15+stream, uint64(idx)*0xD1342543DE82EF95+stream+1))
}

// Case counts one executed case.
func Case() {
	mu.Lock()
	evals++
	mu.Unlock()
}

// Count adds to an observation counter.
func Count(key string, n int64) {
	mu.Lock()
	counters[key] += n
	mu.Unlock()
}

// Max keeps the maximum of an observation.
func Max(key string, v int64) {
	mu.Lock()
	if cur, ok := counters[key]; !ok || v > cur {
		counters[key] = v
	}
	mu.Unlock()
}

// Distinct registers a non-trivial case shape; the number of distinct shapes is reported.
func Distinct(shape string) {
	h := fnv.New64a()
	h.Write([]byte(shape))
	mu.Lock()
	distinct[h.Sum64()] = struct{}{}
	mu.Unlock()
}

// DistinctIn registers a shape in a named set; the size of each set is reported as observation "distinct:<set>"
// (e.g. distinct interleavings / completion orders / end states actually seen).
func DistinctIn(set, shape string) {
	h := fnv.New64a()
	h.Write([]byte(shape))
	mu.Lock()
	m := dsets[set]
	if m == nil {
		m = map[uint64]struct{}{}
		dsets[set] = m
	}
	m[h.Sum64()] = struct{}{}
	mu.Unlock()
}

// Sample keeps a few cases written out.
func Sample(v any) {
	mu.Lock()
	if len(samples) < maxSample {
		samples = append(samples, v)
	}
	mu.Unlock()
}

// WantSample reports whether more samples are wanted (avoids building them needlessly).
func WantSample() bool {
	mu.Lock()
	defer mu.Unlock()
	return len(samples) < maxSample
}

func open() {
	if outFile != nil {
		return
	}
	p := os.Getenv("VERIF_OUT")
	if p == "" {
		p = os.DevNull
	}
	f, err := os.OpenFile(p, os.O_CREATE|os.O_WRONLY|os.O_APPEND, 0o644)
	if err != nil {
		panic(err)
	}
	outFile = f
}

func emit(rec map[string]any) {
	open()
	b, err := json.Marshal(rec)
	if err != nil {
		b, _ = json.Marshal(map[string]any{"type": "harness_error", "error": err.Error()})
	}
	outFile.Write(append(b, '\n'))
	outFile.Sync()
}

// Violation records a violation with a signature that names the failing site / input class / schedule point.
// At most 3 witnesses per signature are written out, all are counted.
func Violation(sig string, idx int64, detail any) {
	mu.Lock()
	seenSig[sig]++
	n := seenSig[sig]
	mu.Unlock()
	if n > 3 {
		return
	}
	sh, nsh := Shard()
	emit(map[string]any{"type": "violation", "sig": sig, "case": idx, "seed": Seed(), "tier": Tier(),
		"shard": sh, "shards": nsh, "detail": detail})
	fmt.Printf("violation sig=%s case=%d\n", sig, idx)
}

// Violated reports whether any violation was recorded so far.
func Violated() bool {
	mu.Lock()
	defer mu.Unlock()
	return len(seenSig) > 0
}

// Inconclusive records a three-valued verdict's third value.
func Inconclusive(reason string) {
	mu.Lock()
	inconc[reason]++
	mu.Unlock()
}

// Flush writes the summary record.
func Flush() {
	mu.Lock()
	hs := make([]string, 0, len(distinct))
	for h := range distinct {
		hs = append(hs, strconv.FormatUint(h, 36))
	}
	sort.Strings(hs)
	ds := map[string][]string{}
	for name, m := range dsets {
		for h := range m {
			ds[name] = append(ds[name], strconv.FormatUint(h, 36))
		}
	}
	sigs := map[string]int{}
	for k, v := range seenSig {
		sigs[k] = v
	}
	rec := map[string]any{"type": "summary", "evaluations": evals, "counters": counters, "distinct": hs,
		"samples": samples, "distinct_sets": ds, "violation_counts": sigs, "inconclusive": inconc,
		"wall_s": time.Since(start).Seconds()}
	mu.Unlock()
	emit(rec)
}

// Main is the TestMain body of every property package.
func Main(m *testing.M) {
	code := m.Run()
	Flush()
	os.Exit(code)
}

// J is shorthand for a JSON object.
type J = map[string]any

// Bubble runs f in a synctest bubble (through run, which is synctest.Test bound to t by the caller) and reports
// whether the bubble could not end because goroutines of the code under test remained durably blocked after the
// scenario's own teardown.  That is recorded as an inconclusive observation of the scenario (its oracles have
// already run inside f), never silently ignored and never fatal for the other cases of the process.
func Bubble(run func(), what string) (leaked bool) {
	defer func() {
		if p := recover(); p != nil {
			msg := fmt.Sprint(p)
			if len(msg) >= 8 && msg[:8] == "deadlock" {
				leaked = true
				Inconclusive("bubble could not end, goroutines remained blocked after teardown (" + what + ")")
				Count("bubbles_that_could_not_end", 1)
				return
			}
			panic(p)
		}
	}()
	run()
	return false
}
