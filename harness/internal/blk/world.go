// Package blk is the scenario engine for the blocking limiter stacks (blocking, deadline, queue FIFO/LIFO,
// pools).  A World lives inside one synctest bubble: a real DefaultLimiter behind an instrumented delegate
// (inject.GateLimiter) behind the wrapper under test, callers in goroutines, an actor goroutine that performs
// releases / cancellations at schedule points, and quiescence snapshots (synctest.Wait) of who is blocked and
// how much capacity is free.  The property packages (C02, C10-C13, C19) apply their own oracles to what a
// World observed.
package blk

import (
	"context"
	"fmt"
	"github.com/platinummonkey/go-concurrency-limits/patterns/pool"
	"sync"
	"sync/atomic"
	"testing/synctest"
	"time"

	"github.com/platinummonkey/go-concurrency-limits/core"
	"github.com/platinummonkey/go-concurrency-limits/limit"
	"github.com/platinummonkey/go-concurrency-limits/limiter"
	"github.com/platinummonkey/go-concurrency-limits/strategy"

	"verifharness/internal/inject"
)

// Kind selects the wrapper under test.
type Kind struct {
	Family   string        `json:"family"`   // blocking | deadline | queue
	Timeout  time.Duration `json:"timeout"`  // blocking: poll timeout; queue: backlog timeout; deadline: distance of the deadline
	Ordering string        `json:"ordering"` // queue: fifo | lifo | "" (default)
	Evict    bool          `json:"evict"`    // queue: BacklogEvictDoneCtx
	Backlog  int           `json:"backlog"`  // queue: MaxBacklogSize
	Precise  bool          `json:"precise"`  // strategy kind
	// ViaPool: the queue limiter is built by pool.NewPool(delegate, ordering, Backlog, PoolTimeout, ...) - Timeout is then the
	// bound that results (the documented default of one second for a PoolTimeout <= 0); World.Queue is nil
	// ZoneOffset: the deadline handed to the deadline limiter is expressed in a fixed zone that many seconds east of UTC
	// (the same instant; only the Location of the time.Time value differs)
	ZoneOffset int `json:"deadline_zone_offset_seconds,omitempty"`
	// ZeroTimeoutArg: the queue limiter is configured with MaxBacklogTimeout 0 ("give me the default"); Timeout is the bound
	// that results (one second)
	ZeroTimeoutArg bool          `json:"zero_timeout_argument,omitempty"`
	ViaPool        bool          `json:"via_pool,omitempty"`
	PoolTimeout    time.Duration `json:"pool_timeout_argument,omitempty"`
}

func (k Kind) String() string {
	switch k.Family {
	case "queue":
		if k.ViaPool {
			return fmt.Sprintf("pool-%s", k.Ordering)
		}
		if k.Timeout < 0 {
			return fmt.Sprintf("queue-%s-evict=%v-no-timeout", k.Ordering, k.Evict)
		}
		return fmt.Sprintf("queue-%s-evict=%v", k.Ordering, k.Evict)
	case "blocking":
		if k.Timeout == 0 {
			return "blocking-timeout0"
		}
		return "blocking-timeoutT"
	}
	return k.Family
}

// Waiter is one caller of the wrapper's Acquire.
type Waiter struct {
	ID         int
	Ctx        context.Context
	Cancel     context.CancelFunc
	goid       atomic.Int64
	done       atomic.Bool
	OK         bool
	L          core.Listener
	Arrived    time.Duration // virtual time since world start
	Returned   time.Duration
	Cancelled  atomic.Bool
	CancelAt   time.Duration
	Completed  bool          // the driver completed the listener this waiter was granted
	DeadlineAt time.Duration // > 0: the caller's context carries this deadline (virtual time since world start)
}

// Done reports whether Acquire returned.
func (w *Waiter) Done() bool { return w.done.Load() }

type busyCounter interface {
	GetBusyCount() int
	GetLimit() int
}

// World is one scenario's universe.
type World struct {
	Kind         Kind
	Cap          int
	Strat        busyCounter
	Default      *limiter.DefaultLimiter
	Gate         *inject.GateLimiter
	Lim          core.Limiter
	Queue        *limiter.QueueBlockingLimiter
	Reg          *inject.RecRegistry
	Actor        *inject.Actor
	Deadline     time.Time
	start        time.Time
	nextDeadline time.Duration
	total        int           // capacity of the underlying limiter (Cap + 1 janitor token for blocking / deadline)
	janitor      core.Listener // token held for the whole scenario; its completion broadcasts and flushes helper goroutines

	Entered  atomic.Int64     // callers that have called Acquire
	Returned atomic.Int64     // callers whose Acquire has returned
	OnReturn func(wt *Waiter) // called in the caller's goroutine right after Acquire returned (after Returned was bumped)

	mu      sync.Mutex
	Waiters []*Waiter
	byGoID  map[int64]*Waiter
	trace   []string
	points  map[string]func(w *Waiter) // verif schedule points by name
}

// NewWorld builds the stack inside the current bubble.
func NewWorld(k Kind, capacity int) *World {
	w := &World{Kind: k, Cap: capacity, Reg: inject.NewRecRegistry(), byGoID: map[int64]*Waiter{}, points: map[string]func(*Waiter){}, start: time.Now()}
	w.total = capacity
	if k.Family != "queue" {
		w.total++
	}
	var st core.Strategy
	if k.Precise {
		p := strategy.NewPreciseStrategy(w.total)
		st, w.Strat = p, p
	} else {
		s := strategy.NewSimpleStrategy(w.total)
		st, w.Strat = s, s
	}
	dl, err := limiter.NewDefaultLimiter(limit.NewFixedLimit("blk", w.total, nil), 1e9, 1e9, 1e5, 100, st, limit.NoopLimitLogger{}, core.EmptyMetricRegistryInstance)
	if err != nil {
		panic(err)
	}
	w.Default = dl
	w.Gate = inject.NewGate(dl)
	switch k.Family {
	case "blocking":
		w.Lim = limiter.NewBlockingLimiter(w.Gate, k.Timeout, nil)
	case "deadline":
		w.Deadline = time.Now().Add(k.Timeout)
		dl := w.Deadline
		if k.ZoneOffset != 0 {
			dl = dl.In(time.FixedZone("fixed", k.ZoneOffset))
		}
		w.Lim = limiter.NewDeadlineLimiter(w.Gate, dl, nil)
	case "queue":
		if k.ViaPool {
			o := pool.OrderingFIFO
			if k.Ordering == "lifo" {
				o = pool.OrderingLIFO
			}
			p, err := pool.NewPool(w.Gate, o, k.Backlog, k.PoolTimeout, nil, w.Reg)
			if err != nil {
				panic(err)
			}
			w.Lim = p
			break
		}
		tArg := k.Timeout
		if k.ZeroTimeoutArg {
			tArg = 0
		}
		q := limiter.NewQueueBlockingLimiterFromConfig(w.Gate, limiter.QueueLimiterConfig{Ordering: limiter.QueueOrdering(k.Ordering),
			MaxBacklogSize: k.Backlog, MaxBacklogTimeout: tArg, BacklogEvictDoneCtx: k.Evict, MetricRegistry: w.Reg})
		w.Queue, w.Lim = q, q
	default:
		panic("family " + k.Family)
	}
	if w.total > capacity {
		l, ok := w.Lim.Acquire(inject.WithCaller(context.Background(), 999))
		if !ok {
			panic("blk: janitor token refused")
		}
		w.janitor = l
	}
	w.Actor = inject.NewActor()
	limiter.SetVerifHook(func(name string) {
		w.mu.Lock()
		f := w.points[name]
		wt := w.byGoID[inject.GoID()]
		w.mu.Unlock()
		if f != nil {
			f(wt)
		}
	})
	return w
}

// Close removes the global hook and stops the actor.
func (w *World) Close() {
	limiter.SetVerifHook(nil)
	w.Actor.Close()
}

// OnPoint installs a handler for a verif schedule point (queue.before_push, queue.after_push, queue.before_handoff).
// The handler receives the waiter whose goroutine reached the point (nil if it is not a waiter goroutine).
func (w *World) OnPoint(name string, f func(wt *Waiter)) {
	w.mu.Lock()
	w.points[name] = f
	w.mu.Unlock()
}

// Now is the virtual time since the world was created.
func (w *World) Now() time.Duration { return time.Since(w.start) }

// Tracef appends to the scenario trace (part of every witness).
func (w *World) Tracef(format string, a ...any) {
	w.mu.Lock()
	w.trace = append(w.trace, fmt.Sprintf("t=%v ", time.Since(w.start))+fmt.Sprintf(format, a...))
	w.mu.Unlock()
}

// Trace returns the trace so far.
func (w *World) Trace() []string {
	w.mu.Lock()
	defer w.mu.Unlock()
	return append([]string(nil), w.trace...)
}

// WaiterByGoID maps a goroutine to the waiter running in it.
func (w *World) WaiterByGoID(id int64) *Waiter {
	w.mu.Lock()
	defer w.mu.Unlock()
	return w.byGoID[id]
}

// Hold acquires n tokens through the wrapper from the driver goroutine (capacity must be free).
func (w *World) Hold(n int) []core.Listener {
	var ls []core.Listener
	for i := 0; i < n; i++ {
		l, ok := w.Lim.Acquire(inject.WithCaller(context.Background(), 1000+i))
		if !ok || l == nil {
			panic("blk: could not take initial token")
		}
		ls = append(ls, l)
	}
	return ls
}

// Spawn starts a caller goroutine.
func (w *World) Spawn() *Waiter { return w.SpawnWith(nil) }

// SpawnDeadline starts a caller whose context expires at the given virtual instant (since world start).
func (w *World) SpawnDeadline(at time.Duration) *Waiter {
	w.nextDeadline = at
	return w.SpawnWith(nil)
}

// SpawnWith starts a caller goroutine after letting prep act on its fresh context (e.g. cancel it first).
func (w *World) SpawnWith(prep func(ctx context.Context, cancel context.CancelFunc)) *Waiter {
	w.mu.Lock()
	wt := &Waiter{ID: len(w.Waiters)}
	ctx, cancel := context.WithCancel(context.Background())
	if w.nextDeadline > 0 {
		wt.DeadlineAt = w.nextDeadline
		ctx, cancel = context.WithDeadline(context.Background(), w.start.Add(w.nextDeadline))
		w.nextDeadline = 0
	}
	wt.Ctx, wt.Cancel = inject.WithCaller(ctx, wt.ID), cancel
	w.Waiters = append(w.Waiters, wt)
	w.mu.Unlock()
	if prep != nil {
		prep(wt.Ctx, cancel)
	}
	started := make(chan struct{})
	go func() {
		id := inject.GoID()
		wt.goid.Store(id)
		w.mu.Lock()
		w.byGoID[id] = wt
		w.mu.Unlock()
		wt.Arrived = w.Now()
		close(started)
		w.Entered.Add(1)
		l, ok := w.Lim.Acquire(wt.Ctx)
		w.Returned.Add(1)
		wt.L, wt.OK = l, ok
		wt.Returned = w.Now()
		if f := w.OnReturn; f != nil {
			f(wt)
		}
		w.Tracef("waiter %d returned ok=%v listener=%v", wt.ID, ok, l != nil)
		wt.done.Store(true)
	}()
	<-started
	w.Tracef("waiter %d arrives", wt.ID)
	return wt
}

// CancelWaiter cancels a waiter's context.
func (w *World) CancelWaiter(wt *Waiter) {
	wt.Cancelled.Store(true)
	wt.CancelAt = w.Now()
	wt.Cancel()
	w.Tracef("waiter %d cancelled", wt.ID)
}

// Release completes a listener with the named outcome.
func (w *World) Release(l core.Listener, outcome string) {
	w.Tracef("release (%s) begins", outcome)
	switch outcome {
	case "success":
		l.OnSuccess()
	case "ignore":
		l.OnIgnore()
	default:
		l.OnDropped()
	}
	w.Tracef("release (%s) returned", outcome)
}

// Quiesce waits until every other goroutine of the bubble is durably blocked.  Virtual time does not advance.
func (w *World) Quiesce() { synctest.Wait() }

// Snapshot is what is observable at a quiescent point.
type Snapshot struct {
	Tag        string        `json:"tag"`
	At         time.Duration `json:"at"`
	Busy       int           `json:"busy"`
	Free       int           `json:"free"`
	Blocked    []int         `json:"blocked_waiters"`   // Acquire not returned, not cancelled, bound not reached
	GivingUp   []int         `json:"giving_up_waiters"` // Acquire not returned but cancelled / bound reached
	Granted    []int         `json:"granted_waiters"`
	Refused    []int         `json:"refused_waiters"`
	QueueGauge int           `json:"queue_size_gauge"`
	BacklogLen int           `json:"backlog_len"`
	InFlight   int64         `json:"limiter_inflight_gauge"`
	GateOut    int64         `json:"delegate_tokens_outstanding"`
}

// bound returns the virtual instant at which a blocked waiter gives up by itself (0 = never).
func (w *World) bound(wt *Waiter) time.Duration {
	switch w.Kind.Family {
	case "queue":
		if w.Kind.Timeout > 0 {
			return wt.Arrived + w.Kind.Timeout
		}
	case "deadline":
		return w.Deadline.Sub(w.start)
	}
	return 0
}

// Snap takes a snapshot (call after Quiesce).
func (w *World) Snap(tag string) Snapshot {
	s := Snapshot{Tag: tag, At: w.Now(), Busy: w.Strat.GetBusyCount(), QueueGauge: -1, BacklogLen: -1, InFlight: w.Default.VerifInFlight()}
	s.Free = w.Strat.GetLimit() - s.Busy
	s.GateOut = w.Gate.Outstanding()
	if w.janitor != nil {
		s.Busy-- // the janitor token is not part of the scenario's capacity
		s.InFlight--
		s.GateOut--
	}
	now := w.Now()
	w.mu.Lock()
	ws := append([]*Waiter(nil), w.Waiters...)
	w.mu.Unlock()
	for _, wt := range ws {
		switch {
		case wt.Done() && wt.OK:
			s.Granted = append(s.Granted, wt.ID)
		case wt.Done():
			s.Refused = append(s.Refused, wt.ID)
		default:
			b := w.bound(wt)
			ctxDone := wt.Cancelled.Load() || (wt.DeadlineAt > 0 && now >= wt.DeadlineAt)
			cancelCounts := ctxDone && (w.Kind.Family != "queue" || w.Kind.Evict)
			if cancelCounts || (b > 0 && now >= b) {
				s.GivingUp = append(s.GivingUp, wt.ID)
			} else {
				s.Blocked = append(s.Blocked, wt.ID)
			}
		}
	}
	if w.Queue != nil {
		if v, ok := w.Reg.GaugeByPrefix(core.MetricQueueSize); ok {
			s.QueueGauge = int(v)
		}
		s.BacklogLen = w.Queue.VerifBacklogLen()
	}
	w.Tracef("snapshot %s: busy=%d free=%d blocked=%v givingup=%v granted=%v refused=%v qsize=%d", tag, s.Busy, s.Free, s.Blocked, s.GivingUp, s.Granted, s.Refused, s.QueueGauge)
	return s
}

// Final is the end state after Teardown.
type Final struct {
	Busy               int   `json:"busy"`
	InFlight           int64 `json:"limiter_inflight_gauge"`
	GateOutstanding    int64 `json:"delegate_tokens_outstanding"`
	DoubleCompleted    int64 `json:"delegate_tokens_completed_twice"`
	BacklogLen         int   `json:"backlog_len"`
	Readmitted         int   `json:"sequential_acquires_granted_after_quiescence"`
	Total              int   `json:"limit"`
	ExtraRefused       bool  `json:"next_acquire_refused"`
	Unreturned         []int `json:"waiters_never_returned"`
	ListenerOKMismatch []int `json:"waiters_with_listener_iff_ok_violated"`
}

// Teardown ends every waiter (cancel, then let virtual time pass every bound), completes every token the
// waiters were granted and the given held ones, flushes the blocking limiters' helper goroutines, and
// measures the end state: all counts zero, full limit admitted again.
func (w *World) Teardown(held []core.Listener) Final {
	w.Quiesce()
	for _, wt := range w.Waiters {
		if !wt.Done() {
			wt.Cancelled.Store(true)
			wt.Cancel()
		}
	}
	w.Quiesce()
	// let backlog timeouts / the deadline pass for waiters that ignore cancellation
	pending := false
	for _, wt := range w.Waiters {
		if !wt.Done() {
			pending = true
		}
	}
	if pending {
		time.Sleep(w.Kind.Timeout + time.Second)
		w.Quiesce()
	}
	for _, l := range held {
		if l != nil {
			l.OnSuccess()
		}
	}
	w.Quiesce()
	// complete grants until nothing new is granted (a completion may hand the token to a queued waiter)
	for round := 0; round < 64; round++ {
		progressed := false
		for _, wt := range w.Waiters {
			if wt.Done() && wt.OK && wt.L != nil && !wt.Completed {
				wt.Completed = true
				wt.L.OnSuccess()
				progressed = true
			}
		}
		w.Quiesce()
		if !progressed {
			break
		}
	}
	var f Final
	f.Total = w.total
	for _, wt := range w.Waiters {
		if !wt.Done() {
			f.Unreturned = append(f.Unreturned, wt.ID)
		} else if (wt.L != nil) != wt.OK {
			f.ListenerOKMismatch = append(f.ListenerOKMismatch, wt.ID)
		}
	}
	f.Busy = w.Strat.GetBusyCount()
	f.InFlight = w.Default.VerifInFlight()
	f.GateOutstanding = w.Gate.Outstanding()
	f.DoubleCompleted = w.Gate.Double.Load()
	f.BacklogLen = -1
	if w.Queue != nil {
		f.BacklogLen = w.Queue.VerifBacklogLen()
	}
	if w.janitor != nil {
		w.janitor.OnIgnore() // broadcasts: lets the helper goroutines of the blocking / deadline limiters exit
		w.janitor = nil
		w.Quiesce()
	}
	f.Busy = w.Strat.GetBusyCount()
	f.InFlight = w.Default.VerifInFlight()
	f.GateOutstanding = w.Gate.Outstanding()
	// the limiter again admits its full limit, and not more
	if len(f.Unreturned) == 0 {
		var again []core.Listener
		for i := 0; i < w.total; i++ {
			l, ok := w.Default.Acquire(context.Background()) // directly at the inner limiter: never blocks
			if ok {
				f.Readmitted++
				again = append(again, l)
			}
		}
		if l, ok := w.Default.Acquire(context.Background()); ok {
			again = append(again, l)
		} else {
			f.ExtraRefused = true
		}
		for _, l := range again {
			l.OnIgnore()
		}
	} else {
		f.Readmitted, f.ExtraRefused = -1, true
	}
	w.Quiesce()
	w.Close()
	return f
}
