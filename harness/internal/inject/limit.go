package inject

import (
	"context"
	"sync"
	"time"

	"github.com/platinummonkey/go-concurrency-limits/core"
)

// RecSample is one OnSample call received by a RecLimit.
type RecSample struct {
	Start    int64 `json:"start"`
	RTT      int64 `json:"rtt"`
	InFlight int   `json:"inflight"`
	Drop     bool  `json:"drop"`
	At       int64 `json:"at_unix_nano"` // time.Now() at entry (virtual inside a bubble)
	EstAfter int   `json:"estimate_after"`
	Seq      int64 `json:"seq,omitempty"` // logical timestamp at entry, if a clock is attached
	SeqOut   int64 `json:"seq_out,omitempty"`
	GoID     int64 `json:"goid,omitempty"` // goroutine that delivered the sample (recorded when a clock is attached)
}

// RecLimit is a core.Limit that records exactly what it is handed and what it answers.  It either wraps a
// real algorithm or follows a scripted estimate trajectory (which may contain 0, negative and repeated values).
type RecLimit struct {
	mu         sync.Mutex
	inner      core.Limit
	script     func(n int) int
	est        int
	samples    []RecSample
	listeners  []core.LimitChangeListener
	Clock      func() int64 // optional logical clock
	OnEnter    func()       // optional schedule point at OnSample entry (called without the lock)
	OnEstimate func()       // optional schedule point inside EstimatedLimit (the limiter reads the estimate right before SetLimit)
}

// NewScriptedLimit returns a RecLimit whose estimate after the n-th sample (1-based) is script(n).
func NewScriptedLimit(initial int, script func(n int) int) *RecLimit {
	return &RecLimit{est: initial, script: script}
}

// NewWrappedLimit returns a RecLimit recording around a real algorithm.
func NewWrappedLimit(inner core.Limit) *RecLimit { return &RecLimit{inner: inner} }

// EstimatedLimit implements core.Limit.
func (l *RecLimit) EstimatedLimit() int {
	if l.OnEstimate != nil {
		l.OnEstimate()
	}
	if l.inner != nil {
		return l.inner.EstimatedLimit()
	}
	l.mu.Lock()
	defer l.mu.Unlock()
	return l.est
}

// NotifyOnChange implements core.Limit.
func (l *RecLimit) NotifyOnChange(c core.LimitChangeListener) {
	if l.inner != nil {
		l.inner.NotifyOnChange(c)
		return
	}
	l.mu.Lock()
	l.listeners = append(l.listeners, c)
	l.mu.Unlock()
}

// OnSample implements core.Limit.
func (l *RecLimit) OnSample(start int64, rtt int64, inFlight int, didDrop bool) {
	if l.OnEnter != nil {
		l.OnEnter()
	}
	s := RecSample{Start: start, RTT: rtt, InFlight: inFlight, Drop: didDrop, At: time.Now().UnixNano()}
	if l.Clock != nil {
		s.Seq = l.Clock()
		s.GoID = GoID()
	}
	if l.inner != nil {
		l.inner.OnSample(start, rtt, inFlight, didDrop)
		s.EstAfter = l.inner.EstimatedLimit()
		if l.Clock != nil {
			s.SeqOut = l.Clock()
		}
		l.mu.Lock()
		l.samples = append(l.samples, s)
		l.mu.Unlock()
		return
	}
	l.mu.Lock()
	n := len(l.samples) + 1
	l.est = l.script(n)
	s.EstAfter = l.est
	if l.Clock != nil {
		s.SeqOut = l.Clock()
	}
	l.samples = append(l.samples, s)
	ls := append([]core.LimitChangeListener(nil), l.listeners...)
	est := l.est
	l.mu.Unlock()
	for _, c := range ls {
		c(est)
	}
}

// Count returns the number of samples received so far.
func (l *RecLimit) Count() int {
	l.mu.Lock()
	defer l.mu.Unlock()
	return len(l.samples)
}

// Samples returns a copy of the samples received so far.
func (l *RecLimit) Samples() []RecSample {
	l.mu.Lock()
	defer l.mu.Unlock()
	return append([]RecSample(nil), l.samples...)
}

// Last returns the most recent sample.
func (l *RecLimit) Last() (RecSample, bool) {
	l.mu.Lock()
	defer l.mu.Unlock()
	if len(l.samples) == 0 {
		return RecSample{}, false
	}
	return l.samples[len(l.samples)-1], true
}

// YieldStrategy wraps a core.Strategy and announces SetLimit before delegating: a schedule point between the
// limiter's reading of the estimate and the strategy update (which correct code keeps under the limiter lock).
type YieldStrategy struct {
	Inner          core.Strategy
	BeforeSetLimit func(limit int)
}

// TryAcquire implements core.Strategy.
func (y *YieldStrategy) TryAcquire(ctx context.Context) (core.StrategyToken, bool) {
	return y.Inner.TryAcquire(ctx)
}

// SetLimit implements core.Strategy.
func (y *YieldStrategy) SetLimit(limit int) {
	if y.BeforeSetLimit != nil {
		y.BeforeSetLimit(limit)
	}
	y.Inner.SetLimit(limit)
}
