package inject

import (
	"context"
	"runtime"
	"strconv"
	"sync"
	"sync/atomic"

	"github.com/platinummonkey/go-concurrency-limits/core"
)

// GoID returns the current goroutine's id (parsed from the stack header; harness-side identification only).
func GoID() int64 {
	var buf [64]byte
	n := runtime.Stack(buf[:], false)
	s := buf[len("goroutine "):n]
	i := 0
	for i < len(s) && s[i] >= '0' && s[i] <= '9' {
		i++
	}
	id, _ := strconv.ParseInt(string(s[:i]), 10, 64)
	return id
}

type callerKey struct{}

// WithCaller tags a context with the harness's caller id (the delegate recognises the caller by it).
func WithCaller(ctx context.Context, id int) context.Context {
	return context.WithValue(ctx, callerKey{}, id)
}

// CallerOf returns the caller id of a context, or -1.
func CallerOf(ctx context.Context) int {
	if v, ok := ctx.Value(callerKey{}).(int); ok {
		return v
	}
	return -1
}

// GateEvent describes one delegate attempt observed by a GateLimiter.
type GateEvent struct {
	Caller int   // caller id carried by the context (-1: none)
	OK     bool  // attempt granted
	Nth    int   // 1-based count of attempts made with this caller id
	GoID   int64 // goroutine that made the attempt (a hand-off attempt runs in the releaser's goroutine)
}

// GateLimiter is the instrumented delegate handed to the blocking / deadline / queue limiters and pools.
// It forwards to a real limiter, announces every attempt to Hook (a schedule point inside the wrapper's
// "attempt failed -> asleep" window) and accounts for every delegate token: exactly-once completion.
type GateLimiter struct {
	Inner core.Limiter
	// Hook is called, in the attempting goroutine, right after the inner attempt returned.
	Hook func(GateEvent)
	// AfterInnerRelease is called in the completing goroutine after the inner listener completed and before
	// control returns to the wrapper (which then broadcasts / unblocks).
	AfterInnerRelease func(outcome string)
	// BeforeInnerRelease is called in the completing goroutine before the inner listener is completed: a delegate
	// whose listener is slow to give the unit back.
	BeforeInnerRelease func(outcome string)

	mu        sync.Mutex
	attempts  map[int]int
	Grants    atomic.Int64
	Completed atomic.Int64
	Double    atomic.Int64 // tokens completed more than once
	Refusals  atomic.Int64
	// RefuseNext makes the next attempt fail without asking the inner limiter.
	RefuseNext atomic.Bool
	byOutcome  [3]atomic.Int64
}

// NewGate wraps a limiter.
func NewGate(inner core.Limiter) *GateLimiter {
	return &GateLimiter{Inner: inner, attempts: map[int]int{}}
}

// Acquire implements core.Limiter.
func (g *GateLimiter) Acquire(ctx context.Context) (core.Listener, bool) {
	if g.RefuseNext.CompareAndSwap(true, false) {
		// a delegate is free to refuse (a newcomer was faster, a partition is full, the limit just shrank)
		g.Refusals.Add(1)
		return nil, false
	}
	l, ok := g.Inner.Acquire(ctx)
	id := CallerOf(ctx)
	g.mu.Lock()
	g.attempts[id]++
	n := g.attempts[id]
	g.mu.Unlock()
	var out core.Listener
	if ok && l != nil {
		g.Grants.Add(1)
		out = &GateListener{g: g, inner: l}
	} else {
		g.Refusals.Add(1)
		ok = false
	}
	if h := g.Hook; h != nil {
		h(GateEvent{Caller: id, OK: ok, Nth: n, GoID: GoID()})
	}
	return out, ok
}

// Outstanding returns grants minus completions of delegate tokens.
func (g *GateLimiter) Outstanding() int64 { return g.Grants.Load() - g.Completed.Load() }

// GateListener accounts for one delegate token.
type GateListener struct {
	g     *GateLimiter
	inner core.Listener
	done  atomic.Int32
}

func (l *GateListener) complete(outcome int, name string, f func()) {
	if l.done.Add(1) > 1 {
		l.g.Double.Add(1)
	} else {
		l.g.Completed.Add(1)
		l.g.byOutcome[outcome].Add(1)
	}
	if h := l.g.BeforeInnerRelease; h != nil {
		h(name)
	}
	f()
	if h := l.g.AfterInnerRelease; h != nil {
		h(name)
	}
}

// OnSuccess implements core.Listener.
func (l *GateListener) OnSuccess() { l.complete(0, "success", l.inner.OnSuccess) }

// OnIgnore implements core.Listener.
func (l *GateListener) OnIgnore() { l.complete(1, "ignore", l.inner.OnIgnore) }

// OnDropped implements core.Listener.
func (l *GateListener) OnDropped() { l.complete(2, "dropped", l.inner.OnDropped) }

// Actor runs closures in its own goroutine so that a schedule point can have "somebody else" act while the
// announcing goroutine pauses.  The pause is bounded: it ends when the action finished or after a fixed number
// of yields, so it cannot deadlock against an implementation that holds a lock across the window (the actor
// then simply blocks on that lock until the pause expires).
type Actor struct {
	ch chan func()
}

// NewActor starts the actor goroutine (inside the current bubble, if any).
func NewActor() *Actor {
	a := &Actor{ch: make(chan func(), 16)}
	go func() {
		for f := range a.ch {
			f()
		}
	}()
	return a
}

// Close stops the actor.
func (a *Actor) Close() { close(a.ch) }

// Do hands f to the actor and pauses the caller until f finished or the yield budget is used up.
// It reports whether f finished within the pause.
func (a *Actor) Do(f func(), yields int) bool {
	var done atomic.Bool
	a.ch <- func() { f(); done.Store(true) }
	for i := 0; i < yields && !done.Load(); i++ {
		runtime.Gosched()
	}
	return done.Load()
}

// Go hands f to the actor without pausing.
func (a *Actor) Go(f func()) { a.ch <- f }
