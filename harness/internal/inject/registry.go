// Package inject holds the instrumented collaborators the harness passes into the library at its public
// injection points: metric registry, limit, delegate limiter/listener, context (DESIGN section 4).
package inject

import (
	"sort"
	"strings"
	"sync"

	"github.com/platinummonkey/go-concurrency-limits/core"
)

// MetricEvent is one AddSample call seen by the recording registry.
type MetricEvent struct {
	Kind  string   `json:"kind"` // distribution | timing | count
	ID    string   `json:"id"`
	Tags  []string `json:"tags,omitempty"`
	Value float64  `json:"value"`
}

// Key identifies a metric by id and registration tags.
func Key(id string, tags ...string) string {
	t := append([]string(nil), tags...)
	sort.Strings(t)
	return id + "|" + strings.Join(t, ",")
}

type recSampler struct {
	r    *RecRegistry
	kind string
	id   string
	tags []string
}

func (s *recSampler) AddSample(v float64, tags ...string) {
	if f := s.r.OnSample; f != nil {
		f(s.kind, s.id) // a user's registry may be slow or yield; called in the sampling goroutine, without the lock
	}
	s.r.mu.Lock()
	s.r.events = append(s.r.events, MetricEvent{Kind: s.kind, ID: s.id, Tags: append(append([]string(nil), s.tags...), tags...), Value: v})
	s.r.mu.Unlock()
}

// RecRegistry is a core.MetricRegistry that records every registration and sample and keeps the gauge
// suppliers callable on demand.
type RecRegistry struct {
	mu        sync.Mutex
	events    []MetricEvent
	gauges    map[string]core.MetricSupplier
	gaugeIDs  []string
	registers []string
	Starts    int
	Stops     int
	// OnSample, when set before use, is called at the start of every AddSample (schedule point inside the library's
	// metric emission; set it once, before the registry is shared).
	OnSample func(kind, id string)
}

// NewRecRegistry creates an empty recording registry.
func NewRecRegistry() *RecRegistry { return &RecRegistry{gauges: map[string]core.MetricSupplier{}} }

func (r *RecRegistry) reg(kind, id string, tags []string) core.MetricSampleListener {
	r.mu.Lock()
	r.registers = append(r.registers, kind+":"+Key(id, tags...))
	r.mu.Unlock()
	return &recSampler{r: r, kind: kind, id: id, tags: tags}
}

// RegisterDistribution implements core.MetricRegistry.
func (r *RecRegistry) RegisterDistribution(id string, tags ...string) core.MetricSampleListener {
	return r.reg("distribution", id, tags)
}

// RegisterTiming implements core.MetricRegistry.
func (r *RecRegistry) RegisterTiming(id string, tags ...string) core.MetricSampleListener {
	return r.reg("timing", id, tags)
}

// RegisterCount implements core.MetricRegistry.
func (r *RecRegistry) RegisterCount(id string, tags ...string) core.MetricSampleListener {
	return r.reg("count", id, tags)
}

// RegisterGauge implements core.MetricRegistry.
func (r *RecRegistry) RegisterGauge(id string, s core.MetricSupplier, tags ...string) {
	r.mu.Lock()
	k := Key(id, tags...)
	r.gauges[k] = s
	r.gaugeIDs = append(r.gaugeIDs, k)
	r.mu.Unlock()
}

// Start implements core.MetricRegistry.
func (r *RecRegistry) Start() { r.mu.Lock(); r.Starts++; r.mu.Unlock() }

// Stop implements core.MetricRegistry.
func (r *RecRegistry) Stop() { r.mu.Lock(); r.Stops++; r.mu.Unlock() }

// Drain returns and clears the recorded samples.
func (r *RecRegistry) Drain() []MetricEvent {
	r.mu.Lock()
	defer r.mu.Unlock()
	e := r.events
	r.events = nil
	return e
}

// Gauge polls a gauge supplier by id and registration tags.
func (r *RecRegistry) Gauge(id string, tags ...string) (float64, bool) {
	r.mu.Lock()
	s := r.gauges[Key(id, tags...)]
	r.mu.Unlock()
	if s == nil {
		return 0, false
	}
	return s()
}

// GaugeByPrefix polls the first gauge whose key starts with id+"|" (tags unknown to the caller).
func (r *RecRegistry) GaugeByPrefix(id string) (float64, bool) {
	r.mu.Lock()
	var s core.MetricSupplier
	for _, k := range r.gaugeIDs {
		if strings.HasPrefix(k, id+"|") {
			s = r.gauges[k]
			break
		}
	}
	r.mu.Unlock()
	if s == nil {
		return 0, false
	}
	return s()
}

// GaugeKeys lists registered gauges.
func (r *RecRegistry) GaugeKeys() []string {
	r.mu.Lock()
	defer r.mu.Unlock()
	return append([]string(nil), r.gaugeIDs...)
}
