// C01 — admission is an atomic counting gate: never over the limit, never refused with room.
// M1: porcupine linearizability of short client-boundary histories against a counting gate (held, limit).
// M2: offline interval sweep over long histories with a constant limit (sound lower/upper bounds of the count).
package c01

import (
	"context"
	"fmt"
	"math/rand/v2"
	"runtime"
	"sort"
	"sync"
	"sync/atomic"
	"testing"
	"time"

	"github.com/anishathalye/porcupine"

	"github.com/platinummonkey/go-concurrency-limits/core"
	"github.com/platinummonkey/go-concurrency-limits/limit"
	"github.com/platinummonkey/go-concurrency-limits/limiter"
	"github.com/platinummonkey/go-concurrency-limits/strategy"

	"verifharness/internal/inject"
	"verifharness/internal/limgen"
	"verifharness/internal/lin"
	"verifharness/internal/rt"
)

func TestMain(m *testing.M) { rt.Main(m) }

type in struct {
	Op string // acq | rel | set
	V  int
}

type gate struct{ Held, Limit int }

func model(initial int) porcupine.Model {
	return porcupine.Model{
		Init: func() any { return gate{Limit: initial} },
		Step: func(state, input, output any) (bool, any) {
			s, c := state.(gate), input.(in)
			switch c.Op {
			case "acq":
				if output.(bool) {
					if s.Held >= s.Limit {
						return false, s
					}
					s.Held++
					return true, s
				}
				return s.Held >= s.Limit, s
			case "rel":
				s.Held--
				return true, s
			default:
				s.Limit = c.V
				return true, s
			}
		},
		DescribeOperation: func(i, o any) string { return fmt.Sprintf("%+v -> %v", i, o) },
	}
}

// someCtx returns a live context or (one call in four) an already-cancelled one: admission must not depend on it.
func someCtx(k int) context.Context {
	if k%4 == 3 {
		return deadCtx
	}
	return context.Background()
}

var deadCtx = func() context.Context {
	c, cancel := context.WithCancel(context.Background())
	cancel()
	return c
}()

func max1(v int) int {
	if v < 1 {
		return 1
	}
	return v
}

func yieldHook(on bool) {
	if on {
		strategy.SetVerifHook(func(string) { runtime.Gosched() })
	} else {
		strategy.SetVerifHook(nil)
	}
}

func describe(ops []porcupine.Operation) []string {
	sort.Slice(ops, func(i, j int) bool { return ops[i].Call < ops[j].Call })
	var out []string
	for _, o := range ops {
		out = append(out, fmt.Sprintf("client %d [%d,%d] %+v -> %v", o.ClientId, o.Call, o.Return, o.Input, o.Output))
	}
	return out
}

// ------------------------------------------------------------------ M1 through the limiter

func m1Limiter(idx int64, r *rand.Rand) {
	stratKind := []string{"simple", "precise"}[r.IntN(2)]
	initial := 1 + r.IntN(3)
	h := &lin.History{}
	var rec *inject.RecLimit
	algo := "scripted"
	switch r.IntN(4) {
	case 0:
		spec := limgen.Spec{Kind: "aimd", Initial: initial, Backoff: 0.5, IncBy: 1}
		rec, algo = inject.NewWrappedLimit(spec.New(nil, "c01")), "aimd"
	case 1:
		spec := limgen.Spec{Kind: "gradient2", Initial: initial, Min: 1, Max: 4, Smoothing: 1, QueueKind: "fixed", QueueArg: 1, LongWin: 10}
		rec, algo = inject.NewWrappedLimit(spec.New(nil, "c01")), "gradient2"
	default:
		traj := []int{1, 2, 0, 3, -1, 2, 2, 1, 3, 1}
		off := r.IntN(len(traj))
		rec = inject.NewScriptedLimit(initial, func(n int) int { return traj[(n+off)%len(traj)] })
	}
	rec.Clock = h.Tick
	var st core.Strategy
	stratArg := []int{initial, initial, 1, initial + 1 + r.IntN(9)}[r.IntN(4)] // placeholder: the limiter seeds the strategy with the estimate
	if stratKind == "simple" {
		st = strategy.NewSimpleStrategy(stratArg)
	} else {
		st = strategy.NewPreciseStrategy(stratArg)
	}
	windowSize := 10
	dl, err := limiter.NewDefaultLimiter(rec, 1, 1, 0, windowSize, st, limit.NoopLimitLogger{}, core.EmptyMetricRegistryInstance)
	if err != nil {
		panic(err)
	}
	yield := r.IntN(2) == 0
	yieldHook(yield)
	defer yieldHook(false)
	// pre-fill the sample window sequentially so that updates happen during the short concurrent phase
	pre := r.IntN(windowSize + 1)
	for i := 0; i < pre; i++ {
		l, ok := dl.Acquire(context.Background())
		if !ok {
			break
		}
		time.Sleep(50 * time.Nanosecond)
		l.OnSuccess()
	}
	start := max1(rec.EstimatedLimit())
	if s, ok := rec.Last(); ok {
		start = max1(s.EstAfter)
	} else {
		start = max1(initial)
	}
	preSamples := rec.Count()
	nG := 2 + r.IntN(7)
	perG := 2 + r.IntN(9)
	type step struct{ acq, spin, out int }
	scripts := make([][]step, nG)
	for g := range scripts {
		for k := 0; k < perG; k++ {
			scripts[g] = append(scripts[g], step{acq: r.IntN(5), spin: r.IntN(3), out: r.IntN(6)})
		}
	}
	bar := lin.NewBarrier(nG)
	var wg sync.WaitGroup
	var mu sync.Mutex
	type relRec struct {
		client    int
		call, ret int64
		goid      int64
	}
	var rels []relRec
	for g := 0; g < nG; g++ {
		wg.Add(1)
		go func(g int) {
			defer wg.Done()
			gid := inject.GoID()
			var mine []core.Listener
			rel := func() {
				l := mine[len(mine)-1]
				mine = mine[:len(mine)-1]
				c := h.Tick()
				switch scripts[g][0].out % 3 {
				case 0:
					l.OnSuccess()
				case 1:
					l.OnDropped()
				default:
					l.OnSuccess()
				}
				rr := h.Tick()
				mu.Lock()
				rels = append(rels, relRec{g, c, rr, gid})
				mu.Unlock()
			}
			bar.Wait()
			for _, s := range scripts[g] {
				for i := 0; i < s.spin; i++ {
					runtime.Gosched()
				}
				if s.acq < 3 || len(mine) == 0 {
					var l core.Listener
					ok := h.Do(g, in{Op: "acq"}, func() any {
						var ok bool
						l, ok = dl.Acquire(someCtx(s.out + s.spin))
						return ok && l != nil
					}).(bool)
					if ok {
						mine = append(mine, l)
					}
				} else {
					scripts[g][0].out = s.out
					rel()
				}
			}
			for len(mine) > 0 {
				rel()
			}
		}(g)
	}
	wg.Wait()
	// turn completions into REL (+ SET when the completion delivered a window to the algorithm)
	samples := rec.Samples()[preSamples:]
	sets := 0
	for _, rl := range rels {
		var hit *inject.RecSample
		for i := range samples {
			if samples[i].GoID == rl.goid && samples[i].Seq > rl.call && samples[i].Seq < rl.ret {
				hit = &samples[i]
				break
			}
		}
		if hit == nil {
			h.Add(rl.client, in{Op: "rel"}, rl.call, nil, rl.ret)
		} else {
			h.Add(rl.client, in{Op: "rel"}, rl.call, nil, hit.Seq)
			h.Add(rl.client, in{Op: "set", V: max1(hit.EstAfter)}, hit.Seq, nil, rl.ret)
			sets++
		}
	}
	ops := h.Ops()
	ov := lin.Overlaps(ops)
	rt.Count("m1_histories", 1)
	rt.Count("m1_operations", int64(len(ops)))
	rt.Count("m1_overlapping_operation_pairs", int64(ov))
	rt.Count("m1_sample_driven_limit_updates", int64(sets))
	cfg := rt.J{"target": "DefaultLimiter+" + stratKind, "algorithm": algo, "initial_limit": start, "goroutines": nG, "yield_in_simple_strategy": yield, "strategy_constructed_with": stratArg}
	res, _ := lin.Check(model(start), ops, 10*time.Second)
	switch res {
	case porcupine.Illegal:
		rt.Violation("C01/limiter+"+stratKind+"/history-not-linearizable-as-counting-gate", idx, rt.J{"config": cfg, "history": describe(ops)})
		return
	case porcupine.Unknown:
		rt.Inconclusive("C01 porcupine timeout")
		return
	}
	rt.Count("m1_histories_linearizable", 1)
	rt.DistinctIn("m1_histories_observed(real-time order of calls and returns)", fmt.Sprint(describe(ops)))
	if ov > 0 {
		rt.Distinct(fmt.Sprintf("m1|%v|%d|%d|%d", cfg, len(ops), ov, sets))
	}
	if rt.WantSample() && idx%47 == 0 {
		d := describe(ops)
		rt.Sample(rt.J{"mode": "M1", "config": cfg, "history_head": d[:min(len(d), 12)], "overlapping_pairs": ov, "limit_updates": sets})
	}
}

// ------------------------------------------------------------------ M1 on the precise strategy used directly

func m1Precise(idx int64, r *rand.Rand) {
	initial := 1 + r.IntN(3)
	st := strategy.NewPreciseStrategy(initial)
	if r.IntN(2) == 0 {
		// a user metric registry that yields inside the strategy's sample emission, i.e. while an admission decision is
		// being taken: other calls pile up behind it
		reg := inject.NewRecRegistry()
		var n atomic.Int64
		reg.OnSample = func(string, string) {
			if n.Add(1)%2 == 0 {
				for i := 0; i < 30; i++ {
					runtime.Gosched()
				}
			}
		}
		st = strategy.NewPreciseStrategyWithMetricRegistry(initial, reg)
	}
	h := &lin.History{}
	nG := 2 + r.IntN(7)
	perG := 2 + r.IntN(9)
	type step struct{ kind, v, spin int }
	scripts := make([][]step, nG)
	for g := range scripts {
		for k := 0; k < perG; k++ {
			scripts[g] = append(scripts[g], step{kind: r.IntN(10), v: -1 + r.IntN(5), spin: r.IntN(3)})
		}
	}
	bar := lin.NewBarrier(nG)
	var wg sync.WaitGroup
	for g := 0; g < nG; g++ {
		wg.Add(1)
		go func(g int) {
			defer wg.Done()
			var mine []core.StrategyToken
			bar.Wait()
			for _, s := range scripts[g] {
				for i := 0; i < s.spin; i++ {
					runtime.Gosched()
				}
				switch {
				case s.kind == 9 && g == 0:
					h.Do(g, in{Op: "set", V: max1(s.v)}, func() any { st.SetLimit(s.v); return nil })
				case s.kind < 5 || len(mine) == 0:
					var tk core.StrategyToken
					ok := h.Do(g, in{Op: "acq"}, func() any {
						var ok bool
						tk, ok = st.TryAcquire(context.Background())
						return ok
					}).(bool)
					if ok {
						mine = append(mine, tk)
					}
				default:
					tk := mine[len(mine)-1]
					mine = mine[:len(mine)-1]
					h.Do(g, in{Op: "rel"}, func() any { tk.Release(); return nil })
				}
			}
			for _, tk := range mine {
				tk := tk
				h.Do(g, in{Op: "rel"}, func() any { tk.Release(); return nil })
			}
		}(g)
	}
	wg.Wait()
	ops := h.Ops()
	ov := lin.Overlaps(ops)
	rt.Count("m1_histories", 1)
	rt.Count("m1_operations", int64(len(ops)))
	rt.Count("m1_overlapping_operation_pairs", int64(ov))
	res, _ := lin.Check(model(initial), ops, 10*time.Second)
	switch res {
	case porcupine.Illegal:
		rt.Violation("C01/precise-direct/history-not-linearizable-as-counting-gate", idx, rt.J{"initial_limit": initial, "history": describe(ops)})
		return
	case porcupine.Unknown:
		rt.Inconclusive("C01 porcupine timeout")
		return
	}
	rt.Count("m1_histories_linearizable", 1)
	if st.GetBusyCount() != 0 {
		rt.Violation("C01/precise-direct/busy-nonzero-at-quiescence", idx, rt.J{"busy": st.GetBusyCount()})
		return
	}
	if ov > 0 {
		rt.Distinct(fmt.Sprintf("m1p|%d|%d|%d|%d", initial, nG, len(ops), ov))
	}
}

// ------------------------------------------------------------------ M2 interval sweep, constant limit

type ev struct {
	t    int64
	kind int8 // 0 acq-call, 1 acq-return, 2 rel-call, 3 rel-return
	ok   bool
	id   int32
}

func m2(idx int64, r *rand.Rand) {
	L := 1 + r.IntN(3)
	target := []string{"limiter+simple", "limiter+precise", "precise-direct"}[r.IntN(3)]
	var acquire func() (func(int), bool)
	stratArgM2 := L
	thresholdM2 := int64(0)
	switch target {
	case "precise-direct":
		st := strategy.NewPreciseStrategy(L)
		acquire = func() (func(int), bool) {
			tk, ok := st.TryAcquire(context.Background())
			if !ok {
				return nil, false
			}
			return func(int) { tk.Release() }, true
		}
	default:
		// the number handed to the strategy's constructor is a placeholder: the limiter enforces the algorithm's limit
		arg := []int{L, L, 1, L + 1 + r.IntN(9)}[r.IntN(4)]
		stratArgM2 = arg
		var st core.Strategy = strategy.NewSimpleStrategy(arg)
		if target == "limiter+precise" {
			st = strategy.NewPreciseStrategy(arg)
		}
		// minimum-RTT threshold: none, the documented default (100us) or far above every hold time - completions below it are
		// not sampled but give their unit back like any other
		thr := []int64{0, 1e5, 1e9}[r.IntN(3)]
		thresholdM2 = thr
		dl, err := limiter.NewDefaultLimiter(limit.NewFixedLimit("c01", L, nil), 1, 1, thr, 10, st, limit.NoopLimitLogger{}, core.EmptyMetricRegistryInstance)
		if err != nil {
			panic(err)
		}
		var n atomic.Int64
		acquire = func() (func(int), bool) {
			l, ok := dl.Acquire(someCtx(int(n.Add(1))))
			if !ok || l == nil {
				return nil, false
			}
			return func(o int) {
				switch o % 3 {
				case 0:
					l.OnSuccess()
				case 1:
					l.OnIgnore()
				default:
					l.OnDropped()
				}
			}, true
		}
	}
	yield := r.IntN(2) == 0
	yieldHook(yield)
	defer yieldHook(false)
	nG := 2 + r.IntN(15)
	total := 20000
	if rt.Thorough() {
		total = 100000
	}
	per := total / nG
	hold := r.IntN(3) // 0 none, 1 Gosched, 2 short spin
	var clock lin.History
	evs := make([][]ev, nG)
	var wg sync.WaitGroup
	bar := lin.NewBarrier(nG)
	for g := 0; g < nG; g++ {
		wg.Add(1)
		go func(g int) {
			defer wg.Done()
			my := make([]ev, 0, per*4)
			bar.Wait()
			for i := 0; i < per; i++ {
				id := int32(g*per + i)
				c := clock.Tick()
				rel, ok := acquire()
				rr := clock.Tick()
				my = append(my, ev{c, 0, ok, id}, ev{rr, 1, ok, id})
				if !ok {
					continue
				}
				switch hold {
				case 1:
					runtime.Gosched()
				case 2:
					for k := 0; k < 20; k++ {
						_ = k
					}
				}
				c2 := clock.Tick()
				rel(i)
				r2 := clock.Tick()
				my = append(my, ev{c2, 2, true, id}, ev{r2, 3, true, id})
			}
			evs[g] = my
		}(g)
	}
	wg.Wait()
	var all []ev
	for _, e := range evs {
		all = append(all, e...)
	}
	sort.Slice(all, func(i, j int) bool { return all[i].t < all[j].t })
	// LB(t): grants returned and completion not yet called; UB(t): granted ops from Acquire call to completion return
	lb, ub := 0, 0
	maxLB := 0
	ubAt := make([]int32, len(all)) // UB after event i
	pos := map[int32][2]int{}       // refused acquire id -> [call idx, return idx]
	grants, refusals := 0, 0
	for i, e := range all {
		switch e.kind {
		case 0:
			if e.ok {
				ub++
			} else {
				p := pos[e.id]
				p[0] = i
				pos[e.id] = p
			}
		case 1:
			if e.ok {
				lb++
				grants++
				if lb > maxLB {
					maxLB = lb
				}
			} else {
				p := pos[e.id]
				p[1] = i
				pos[e.id] = p
				refusals++
			}
		case 2:
			lb--
		case 3:
			ub--
		}
		ubAt[i] = int32(ub)
	}
	rt.Count("m2_runs", 1)
	rt.Count("m2_operations", int64(grants+refusals))
	rt.Count("m2_refusals_checked", int64(refusals))
	rt.Max("max:m2_simultaneous_holders_lower_bound_minus_limit", int64(maxLB-L))
	cfg := rt.J{"target": target, "limit": L, "strategy_constructed_with": stratArgM2, "min_rtt_threshold_ns": thresholdM2, "goroutines": nG, "hold": hold, "yield_in_simple_strategy": yield, "grants": grants, "refusals": refusals}
	if maxLB > L {
		rt.Violation("C01/"+target+"/more-tokens-held-than-the-limit", idx, rt.J{"config": cfg, "holders_lower_bound": maxLB})
		return
	}
	for id, p := range pos {
		mx := int32(0)
		lo := p[0] - 1
		if lo < 0 {
			lo = 0
		}
		for i := lo; i <= p[1]; i++ {
			if ubAt[i] > mx {
				mx = ubAt[i]
			}
		}
		if int(mx) < L {
			rt.Violation("C01/"+target+"/refused-while-capacity-was-free", idx, rt.J{"config": cfg, "refused_op": id, "holders_upper_bound_during_the_call": mx})
			return
		}
	}
	if grants > 0 && refusals > 0 {
		rt.Distinct(fmt.Sprintf("m2|%v", cfg))
	}
	if rt.WantSample() && idx%13 == 12 {
		rt.Sample(rt.J{"mode": "M2", "config": cfg, "max_holders_lower_bound": maxLB})
	}
}

// ------------------------------------------------------------------ M3: the gate's limit is the limit in force
//
// A counting gate enforces the limit that is in force, so the limiter has to hand each new estimate to the
// strategy atomically with the window roll-over that produced it (both are serialised by the limiter mutex with
// every Acquire).  The strategy is wrapped by a collaborator that takes its time inside SetLimit; every
// decision is still taken by the real strategy.  Monitors: (a) at the instant SetLimit(v) is applied the
// algorithm's estimate is still the one v was read from; (b) at rest after every burst the enforced limit is the
// estimate, and a sequential probe is granted exactly estimate - outstanding times.
func m3Publish(idx int64, r *rand.Rand) {
	stratKind := []string{"simple", "precise"}[r.IntN(2)]
	traj := []int{4, 6, 3, 7, 5, 8, 2, 9}
	off := r.IntN(len(traj))
	rec := inject.NewScriptedLimit(4, func(n int) int { return traj[(n+off)%len(traj)] })
	algo := "scripted"
	if r.IntN(3) == 0 {
		rec, algo = inject.NewWrappedLimit(limgen.Spec{Kind: "aimd", Initial: 6, Backoff: 0.8, IncBy: 1}.New(nil, "c01")), "aimd"
	}
	var inner core.Strategy
	var getLimit func() int
	if stratKind == "simple" {
		s := strategy.NewSimpleStrategy(4)
		inner, getLimit = s, s.GetLimit
	} else {
		s := strategy.NewPreciseStrategy(4)
		inner, getLimit = s, s.GetLimit
	}
	var stale atomic.Int64
	var applied atomic.Int64
	var firstStale atomic.Value
	slowEvery := 1 + r.IntN(3)
	st := &inject.YieldStrategy{Inner: inner, BeforeSetLimit: func(v int) {
		n := applied.Add(1)
		if n%int64(slowEvery) == 0 {
			time.Sleep(50 * time.Microsecond)
		} else {
			runtime.Gosched()
		}
		if now := rec.EstimatedLimit(); now != v {
			if stale.Add(1) == 1 {
				firstStale.Store(fmt.Sprintf("SetLimit(%d) applied while the algorithm's estimate is %d", v, now))
			}
		}
	}}
	dl, err := limiter.NewDefaultLimiter(rec, 1, 1, 0, 10, st, limit.NoopLimitLogger{}, core.EmptyMetricRegistryInstance)
	if err != nil {
		panic(err)
	}
	nG := 4 + r.IntN(9)
	bursts := 6
	cfg := rt.J{"target": "DefaultLimiter+" + stratKind, "algorithm": algo, "goroutines": nG, "slow_setlimit_every": slowEvery}
	for b := 0; b < bursts; b++ {
		var wg sync.WaitGroup
		for g := 0; g < nG; g++ {
			wg.Add(1)
			go func(g int) {
				defer wg.Done()
				for i := 0; i < 40; i++ {
					l, ok := dl.Acquire(context.Background())
					if !ok {
						runtime.Gosched()
						continue
					}
					if (i+g)%7 == 0 && algo == "aimd" {
						l.OnDropped()
					} else {
						l.OnSuccess()
					}
				}
			}(g)
		}
		wg.Wait()
		rt.Count("m3_bursts", 1)
		if stale.Load() > 0 {
			rt.Violation("C01/limiter+"+stratKind+"/limit-handed-to-the-strategy-is-not-the-estimate-in-force", idx, rt.J{"config": cfg, "burst": b, "first": firstStale.Load(), "stale_publications": stale.Load()})
			return
		}
		est := max1(rec.EstimatedLimit())
		if got := getLimit(); got != est {
			rt.Violation("C01/limiter+"+stratKind+"/enforced-limit-at-rest-is-not-the-estimate", idx, rt.J{"config": cfg, "burst": b, "enforced": got, "estimate": est})
			return
		}
		// sequential probe at rest: exactly est grants, then a refusal; nothing is completed (no samples) while probing
		var held []core.Listener
		for {
			l, ok := dl.Acquire(context.Background())
			if !ok {
				break
			}
			held = append(held, l)
			if len(held) > est+2 {
				break
			}
		}
		if len(held) != est {
			rt.Violation("C01/limiter+"+stratKind+"/probe-at-rest-granted-other-than-the-limit-in-force", idx, rt.J{"config": cfg, "burst": b, "granted": len(held), "limit_in_force": est})
			return
		}
		for _, l := range held {
			l.OnIgnore()
		}
		rt.Count("m3_probes_at_rest", 1)
	}
	rt.Count("m3_setlimit_applications_checked", applied.Load())
	rt.Distinct(fmt.Sprintf("m3|%v", cfg))
}

// saturate acquires until the limiter refuses (at most cap attempts) and returns the tokens it was granted.
func saturate(lim core.Limiter, cap int) []core.Listener {
	var held []core.Listener
	for i := 0; i < cap; i++ {
		l, ok := lim.Acquire(someCtx(i))
		if !ok || l == nil {
			break
		}
		held = append(held, l)
	}
	return held
}

// m4Constructors: sequential gates whose limit comes from somewhere else than a sample: (a) the convenience constructor
// (default Vegas limit, initial estimate 20) over a strategy built with a placeholder number - before any window has
// closed exactly 20 tokens are granted; (b) a SettableLimit moved by explicit sets between windows - once a window has
// closed after a set, exactly the new value is granted.
func m4Constructors(idx int64, r *rand.Rand) {
	stratKind := []string{"simple", "precise"}[r.IntN(2)]
	mk := func(n int) core.Strategy {
		if stratKind == "simple" {
			return strategy.NewSimpleStrategy(n)
		}
		return strategy.NewPreciseStrategy(n)
	}
	arg := []int{1, 5, 20, 100, 1000}[r.IntN(5)]
	dl, err := limiter.NewDefaultLimiterWithDefaults("c01", mk(arg), limit.NoopLimitLogger{}, core.EmptyMetricRegistryInstance)
	if err != nil {
		panic(err)
	}
	want := dl.EstimatedLimit()
	held := saturate(dl, want+arg+50)
	rt.Count("convenience_constructor_gates_checked", 1)
	if len(held) != want {
		rt.Violation("C01/limiter+"+stratKind+"/gate-built-by-the-convenience-constructor-grants-other-than-its-estimate", idx, rt.J{"strategy_constructor_argument": arg,
			"estimate": want, "granted_before_any_window_closed": len(held)})
		return
	}
	for _, l := range held {
		l.OnIgnore()
	}
	// (b)
	sl := limit.NewSettableLimit("c01", 1+r.IntN(8), nil)
	dl2, err := limiter.NewDefaultLimiter(sl, 1, 1, 0, 10, mk(1+r.IntN(12)), limit.NoopLimitLogger{}, core.EmptyMetricRegistryInstance)
	if err != nil {
		panic(err)
	}
	var traj []int
	for step := 0; step < 5; step++ {
		v := 1 + r.IntN(12)
		traj = append(traj, v)
		sl.SetLimit(v)
		// let a whole window go by: 40 sequential completions, each a few hundred nanoseconds long
		for i := 0; i < 40; i++ {
			l, ok := dl2.Acquire(someCtx(i))
			if !ok {
				rt.Violation("C01/limiter+"+stratKind+"/refused-while-capacity-was-free/after-an-explicit-set", idx, rt.J{"trajectory_of_explicit_sets": traj, "completions_since_the_set": i})
				return
			}
			for k := 0; k < 50; k++ {
				runtime.Gosched()
			}
			l.OnSuccess()
		}
		held := saturate(dl2, v+40)
		rt.Count("explicit_set_gates_checked", 1)
		if len(held) != v {
			rt.Violation("C01/limiter+"+stratKind+"/gate-grants-other-than-the-limit-set-explicitly-before-the-last-window", idx, rt.J{"trajectory_of_explicit_sets": traj,
				"estimate": dl2.EstimatedLimit(), "granted": len(held)})
			return
		}
		for _, l := range held {
			l.OnIgnore()
		}
	}
	rt.Distinct(fmt.Sprintf("m4|%s|%d|%v", stratKind, arg, traj))
}

func TestCheck(t *testing.T) {
	rt.Cases(1260, 63000, func(idx int64) {
		r := rt.CaseRand(1, idx)
		rt.Case()
		switch m := idx % 21; {
		case m == 6:
			m4Constructors(idx, r)
		case m == 13:
			m3Publish(idx, r)
		case m < 14:
			m1Limiter(idx, r)
		case m < 20:
			m1Precise(idx, r)
		default:
			m2(idx, r)
		}
	})
}
