// C14 — gRPC interceptors gate on the right limiter and complete the token exactly once.
// Doubles for limiter / listener / handler / invoker / stream / classifiers; every call is judged from the
// recorded event sequence.
package c14

import (
	"context"
	"errors"
	"fmt"
	"io"
	"math/rand/v2"
	"runtime"
	"sync"
	"sync/atomic"
	"testing"
	"time"

	golangGrpc "google.golang.org/grpc"
	"google.golang.org/grpc/codes"
	"google.golang.org/grpc/status"

	"github.com/platinummonkey/go-concurrency-limits/core"
	gclGrpc "github.com/platinummonkey/go-concurrency-limits/grpc"
	"github.com/platinummonkey/go-concurrency-limits/limit"
	"github.com/platinummonkey/go-concurrency-limits/limiter"
	"github.com/platinummonkey/go-concurrency-limits/strategy"

	"verifharness/internal/rt"
)

func TestMain(m *testing.M) { rt.Main(m) }

type event struct {
	What string // acquire:<name> | complete:<name>:<outcome> | wrapped | classify:<which> | exceeded:<which>
}

type log struct{ ev []string }

func (l *log) add(s string) { l.ev = append(l.ev, s) }

type recListener struct {
	lg   *log
	name string
}

func (r *recListener) OnSuccess() { r.lg.add("complete:" + r.name + ":success") }
func (r *recListener) OnIgnore()  { r.lg.add("complete:" + r.name + ":ignore") }
func (r *recListener) OnDropped() { r.lg.add("complete:" + r.name + ":dropped") }

type recLimiter struct {
	lg        *log
	name      string
	grant     bool
	onAcquire func() // e.g. cancels the caller's context while the token is being handed over
}

func (r *recLimiter) Acquire(ctx context.Context) (core.Listener, bool) {
	r.lg.add("acquire:" + r.name)
	if r.onAcquire != nil {
		r.onAcquire()
	}
	if !r.grant {
		return nil, false
	}
	return &recListener{r.lg, r.name}, true
}
func (r *recLimiter) String() string { return "recLimiter(" + r.name + ")" }

var outcomes = []string{"success", "ignore", "dropped"}
var respTypes = []gclGrpc.ResponseType{gclGrpc.ResponseTypeSuccess, gclGrpc.ResponseTypeIgnore, gclGrpc.ResponseTypeDropped}

// every non-OK status code of the gRPC specification (a classifier may choose any of them)
var codeChoices = []codes.Code{codes.ResourceExhausted, codes.Unavailable, codes.Aborted, codes.DeadlineExceeded, codes.PermissionDenied,
	codes.Canceled, codes.Unknown, codes.InvalidArgument, codes.NotFound, codes.AlreadyExists, codes.FailedPrecondition, codes.OutOfRange,
	codes.Unimplemented, codes.Internal, codes.DataLoss, codes.Unauthenticated}

// exceededErr is what a limit-exceeded classifier returns as its error: a plain error, a gRPC status error carrying a
// different code than the one the classifier chose, or an error wrapping such a status.  The chosen code must win.
func exceededErr(r *rand.Rand, chosen codes.Code, msg string) error {
	other := codeChoices[r.IntN(len(codeChoices))]
	for other == chosen {
		other = codeChoices[r.IntN(len(codeChoices))]
	}
	switch r.IntN(4) {
	case 0:
		return status.Error(other, msg)
	case 1:
		return fmt.Errorf("%s: %w", msg, status.Error(other, "inner"))
	case 2:
		// a classifier that only chooses the code (and the response) and has no error of its own to add
		rt.Count("limit_exceeded_classifiers_returning_a_nil_error", 1)
		return nil
	}
	return errors.New(msg)
}

func count(ev []string, prefix string) (n int, first int) {
	first = -1
	for i, e := range ev {
		if len(e) >= len(prefix) && e[:len(prefix)] == prefix {
			if first < 0 {
				first = i
			}
			n++
		}
	}
	return
}

type fakeStream struct {
	golangGrpc.ServerStream
	lg      *log
	recvErr error
	sendErr error
	ctx     context.Context
	tag     string // "" for the stream under observation, "2" for a second stream that is open at the same time
}

func (f *fakeStream) Context() context.Context { return f.ctx }
func (f *fakeStream) RecvMsg(m interface{}) error {
	f.lg.add("wrapped" + f.tag + ":recv")
	return f.recvErr
}
func (f *fakeStream) SendMsg(m interface{}) error {
	f.lg.add("wrapped" + f.tag + ":send")
	return f.sendErr
}

func judge(idx int64, kind string, lg *log, cfg rt.J, limName string, otherLims []string, granted bool, wrappedTag string,
	wantOutcome string, classifierTags []string, needClassifier bool) bool {
	ev := lg.ev
	fail := func(sig string) bool {
		rt.Violation("C14/"+kind+"/"+sig, idx, rt.J{"config": cfg, "events": ev, "expected_limiter": limName, "granted": granted, "expected_outcome": wantOutcome})
		return false
	}
	if n, _ := count(ev, "badargs:"); n > 0 {
		return fail("classifier-not-given-the-arguments-of-the-call")
	}
	nAcq, iAcq := count(ev, "acquire:"+limName)
	for _, o := range otherLims {
		if n, _ := count(ev, "acquire:"+o); n > 0 {
			return fail("acquired-from-wrong-limiter")
		}
		if n, _ := count(ev, "complete:"+o); n > 0 {
			return fail("completed-token-of-wrong-limiter")
		}
	}
	if nAcq != 1 {
		return fail(fmt.Sprintf("acquire-count-%d", nAcq))
	}
	nW, iW := count(ev, wrappedTag)
	nC, _ := count(ev, "complete:")
	if !granted {
		if nW != 0 {
			return fail("wrapped-call-invoked-on-refusal")
		}
		if nC != 0 {
			return fail("token-touched-on-refusal")
		}
		return true
	}
	if nW != 1 {
		return fail(fmt.Sprintf("wrapped-call-count-%d", nW))
	}
	if iW < iAcq {
		return fail("wrapped-call-before-acquire")
	}
	if nC != 1 {
		return fail(fmt.Sprintf("completion-count-%d", nC))
	}
	if n, _ := count(ev, "complete:"+limName+":"+wantOutcome); n != 1 {
		return fail("completion-outcome-differs-from-classifier")
	}
	if needClassifier {
		tot := 0
		for _, c := range classifierTags {
			n, _ := count(ev, c)
			tot += n
		}
		if tot != 1 {
			return fail(fmt.Sprintf("classifier-consulted-%d-times", tot))
		}
	}
	return true
}

func unaryCase(idx int64, r *rand.Rand) {
	lg := &log{}
	server := r.IntN(2) == 0
	kind := "unary-client"
	if server {
		kind = "unary-server"
	}
	granted := r.IntN(4) != 0
	lim := &recLimiter{lg: lg, name: "main", grant: granted}
	useLim := r.IntN(8) != 0
	useCls := r.IntN(4) != 0
	useExc := r.IntN(3) != 0
	var handlerErr error
	if r.IntN(2) == 0 {
		handlerErr = fmt.Errorf("handler error %d", r.IntN(1000))
		if r.IntN(3) == 0 {
			handlerErr = status.Error(codeChoices[r.IntN(len(codeChoices))], "remote")
		}
	}
	resp := &struct{ X int }{r.IntN(100)}
	var respAny interface{} = resp
	if r.IntN(6) == 0 {
		respAny = nil
	}
	clsOut := r.IntN(3)
	excCode := codeChoices[r.IntN(len(codeChoices))]
	excResp := &struct{ Y int }{7}
	excErr := exceededErr(r, excCode, "custom limit exceeded")
	cfg := rt.J{"kind": kind, "granted": granted, "with_limiter": useLim, "with_response_classifier": useCls,
		"with_limit_exceeded_classifier": useExc, "handler_error": fmt.Sprint(handlerErr), "classifier_result": outcomes[clsOut],
		"exceeded_code": excCode.String()}
	var opts []gclGrpc.InterceptorOption
	if r.IntN(2) == 0 {
		opts = append(opts, gclGrpc.WithName("n"), gclGrpc.WithTags([]string{"a:b"}))
	}
	if useLim {
		opts = append(opts, gclGrpc.WithLimiter(lim))
	}
	// the request, the reply and the call info are distinct objects: a classifier decides from what it is handed
	var reqV interface{} = &struct{ Req int }{1}
	var replyV interface{} = &struct{ Reply int }{2}
	infoV := &golangGrpc.UnaryServerInfo{FullMethod: "/svc/M"}
	if useCls {
		opts = append(opts, gclGrpc.WithServerResponseTypeClassifier(func(ctx context.Context, req interface{}, info *golangGrpc.UnaryServerInfo, rsp interface{}, err error) gclGrpc.ResponseType {
			lg.add("classify:server")
			if req != reqV || info != infoV || rsp != respAny || err != handlerErr {
				lg.add("badargs:classify:server")
			}
			return respTypes[clsOut]
		}), gclGrpc.WithClientResponseTypeClassifier(func(ctx context.Context, method string, req, reply interface{}, err error) gclGrpc.ResponseType {
			lg.add("classify:client")
			if method != "/svc/M" || req != reqV || reply != replyV || err != handlerErr {
				lg.add("badargs:classify:client")
			}
			return respTypes[clsOut]
		}))
	}
	if useExc {
		opts = append(opts, gclGrpc.WithLimitExceededResponseClassifier(func(ctx context.Context, method string, req interface{}, l core.Limiter) (interface{}, codes.Code, error) {
			lg.add("exceeded:main")
			if method != "/svc/M" || req != reqV || l != core.Limiter(lim) {
				lg.add("badargs:exceeded:main")
			}
			return excResp, excCode, excErr
		}))
	}
	var gotResp interface{}
	var gotErr error
	// the caller's context: live, already cancelled, expired, or cancelled while the limiter hands the token over -
	// the interceptors gate on the limiter, not on the context
	ctx := context.Background()
	ctxMode := []string{"live", "live", "cancelled-before-call", "expired", "cancelled-during-acquire"}[r.IntN(5)]
	switch ctxMode {
	case "cancelled-before-call":
		c, cancel := context.WithCancel(ctx)
		cancel()
		ctx = c
	case "expired":
		c, cancel := context.WithDeadline(ctx, time.Unix(1, 0))
		defer cancel()
		ctx = c
	case "cancelled-during-acquire":
		c, cancel := context.WithCancel(ctx)
		defer cancel()
		lim.onAcquire = cancel
		ctx = c
	}
	cfg["context"] = ctxMode
	if ctxMode != "live" {
		rt.Count("calls_with_a_dead_context", 1)
		if r.IntN(2) == 0 {
			// the wrapped call gives up because its context ended and hands back the context's own error, verbatim: that
			// is the call's own result like any other
			handlerErr = context.Canceled
			if ctxMode == "expired" {
				handlerErr = context.DeadlineExceeded
			}
			cfg["handler_error"] = "the context's own error: " + handlerErr.Error()
			rt.Count("calls_whose_result_is_the_error_of_their_ended_context", 1)
		}
	}
	if server {
		ic := gclGrpc.UnaryServerInterceptor(opts...)
		gotResp, gotErr = ic(ctx, reqV, infoV, func(ctx context.Context, req interface{}) (interface{}, error) {
			lg.add("wrapped")
			if req != reqV {
				lg.add("badargs:handler")
			}
			return respAny, handlerErr
		})
	} else {
		ic := gclGrpc.UnaryClientInterceptor(opts...)
		gotErr = ic(ctx, "/svc/M", reqV, replyV, nil, func(ctx context.Context, method string, req, reply interface{}, cc *golangGrpc.ClientConn, o ...golangGrpc.CallOption) error {
			lg.add("wrapped")
			if method != "/svc/M" || req != reqV || reply != replyV {
				lg.add("badargs:invoker")
			}
			return handlerErr
		})
	}
	rt.Count("unary_calls", 1)
	fail := func(sig string, extra rt.J) {
		extra["config"], extra["events"] = cfg, lg.ev
		rt.Violation("C14/"+kind+"/"+sig, idx, extra)
	}
	if !useLim { // default limiter: only the pass-through can be observed
		nW, _ := count(lg.ev, "wrapped")
		if nW != 1 {
			fail("default-limiter-wrapped-call-count", rt.J{"count": nW})
			return
		}
		if gotErr != handlerErr || (server && gotResp != respAny) {
			fail("result-not-returned-unchanged", rt.J{"got_err": fmt.Sprint(gotErr)})
		}
		rt.Distinct(fmt.Sprintf("%v", cfg))
		return
	}
	want := outcomes[clsOut]
	if !useCls {
		want = "success"
		if handlerErr != nil {
			want = "dropped"
		}
	}
	which := "classify:client"
	if server {
		which = "classify:server"
	}
	if !judge(idx, kind, lg, cfg, "main", nil, granted, "wrapped", want, []string{which}, useCls) {
		return
	}
	if granted {
		if gotErr != handlerErr || (server && gotResp != respAny) {
			fail("result-not-returned-unchanged", rt.J{"got_err": fmt.Sprint(gotErr)})
			return
		}
		rt.Count("granted_calls_checked", 1)
	} else {
		wantCode := codes.ResourceExhausted
		if useExc {
			wantCode = excCode
			if n, _ := count(lg.ev, "exceeded:main"); n != 1 {
				fail("limit-exceeded-classifier-not-consulted-once", rt.J{"count": n})
				return
			}
		}
		if status.Code(gotErr) != wantCode {
			fail("refusal-status-code-differs-from-classifier", rt.J{"got": status.Code(gotErr).String(), "want": wantCode.String()})
			return
		}
		if server && useExc && gotResp != interface{}(excResp) {
			fail("refusal-response-differs-from-classifier", rt.J{})
			return
		}
		rt.Count("refused_calls_checked", 1)
	}
	rt.Distinct(fmt.Sprintf("%v", cfg))
	if rt.WantSample() && idx%131 == 0 {
		rt.Sample(rt.J{"config": cfg, "events": lg.ev, "returned_error": fmt.Sprint(gotErr)})
	}
}

func streamCase(idx int64, r *rand.Rand) {
	lg := &log{}
	recvL := &recLimiter{lg: lg, name: "recv", grant: true}
	sendL := &recLimiter{lg: lg, name: "send", grant: true}
	useRecvL, useSendL := r.IntN(6) != 0, r.IntN(6) != 0
	useCls := r.IntN(4) != 0
	useExc := r.IntN(3) != 0
	clsOut := 0
	var curMsg interface{} // the message of the stream operation in progress
	var curErr error       // and the error the wrapped operation returns
	// the kind of streaming RPC (client-, server-, bidirectional, or the zero value) changes nothing: every receive and every
	// send is gated
	sinfo := &golangGrpc.StreamServerInfo{FullMethod: "/svc/S", IsClientStream: r.IntN(2) == 0, IsServerStream: r.IntN(2) == 0}
	rt.Count(fmt.Sprintf("stream_cases/client_stream=%v,server_stream=%v", sinfo.IsClientStream, sinfo.IsServerStream), 1)
	recvCode, sendCode := codeChoices[r.IntN(len(codeChoices))], codeChoices[r.IntN(len(codeChoices))]
	recvErr, sendErr := exceededErr(r, recvCode, "recv limit exceeded"), exceededErr(r, sendCode, "send limit exceeded")
	var opts []gclGrpc.StreamInterceptorOption
	switch r.IntN(4) { // names are only used for the default limiters; they must not disturb configured ones
	case 0:
		opts = append(opts, gclGrpc.WithStreamRecvName("r"), gclGrpc.WithStreamSendName("s"))
	case 1:
		opts = append(opts, gclGrpc.WithStreamSendName("s"))
	case 2:
		opts = append(opts, gclGrpc.WithStreamRecvName("r"))
	}
	if useRecvL {
		opts = append(opts, gclGrpc.WithStreamRecvLimiter(recvL))
	}
	if useSendL {
		opts = append(opts, gclGrpc.WithStreamSendLimiter(sendL))
	}
	// the two response classifiers are configured independently: both, none, or only one of them (the other direction
	// then runs on the default classifier: error => dropped)
	useSrvCls, useCliCls := useCls, useCls
	if useCls && r.IntN(3) == 0 {
		if r.IntN(2) == 0 {
			useSrvCls = false
		} else {
			useCliCls = false
		}
	}
	if useSrvCls {
		opts = append(opts, gclGrpc.WithStreamServerResponseTypeClassifier(func(ctx context.Context, req interface{}, info *golangGrpc.StreamServerInfo, err error) gclGrpc.ResponseType {
			lg.add("classify:stream-server")
			if req != curMsg || info != sinfo || err != curErr {
				lg.add("badargs:classify:stream-server")
			}
			return respTypes[clsOut]
		}))
	}
	if useCliCls {
		opts = append(opts, gclGrpc.WithStreamClientResponseTypeClassifier(func(ctx context.Context, req interface{}, info *golangGrpc.StreamServerInfo, err error) gclGrpc.ResponseType {
			lg.add("classify:stream-client")
			if req != curMsg || info != sinfo || err != curErr {
				lg.add("badargs:classify:stream-client")
			}
			return respTypes[clsOut]
		}))
	}
	servedBy := map[string]string{} // configured classifier -> the one direction it has been consulted for on this stream
	if useExc {
		opts = append(opts, gclGrpc.WithStreamRecvLimitExceededResponseClassifier(func(ctx context.Context, method string, req interface{}, l core.Limiter) (interface{}, codes.Code, error) {
			lg.add("exceeded:recv")
			if method != "/svc/S" || req != curMsg || l != core.Limiter(recvL) {
				lg.add("badargs:exceeded:recv")
			}
			return nil, recvCode, recvErr
		}), gclGrpc.WithStreamSendLimitExceededResponseClassifier(func(ctx context.Context, method string, req interface{}, l core.Limiter) (interface{}, codes.Code, error) {
			lg.add("exceeded:send")
			if method != "/svc/S" || req != curMsg || l != core.Limiter(sendL) {
				lg.add("badargs:exceeded:send")
			}
			return nil, sendCode, sendErr
		}))
	}
	sctx := context.Background()
	if r.IntN(3) == 0 {
		c, cancel := context.WithCancel(sctx)
		cancel()
		sctx = c
		rt.Count("calls_with_a_dead_context", 1)
	}
	fs := &fakeStream{lg: lg, ctx: sctx}
	ic := gclGrpc.StreamServerInterceptor(opts...)
	nops := 1 + r.IntN(12)
	var seq []string
	var handlerRet error = fmt.Errorf("handler result")
	if r.IntN(3) == 0 {
		handlerRet = nil // a handler that carries on after refused operations and ends normally
		rt.Count("stream_handlers_returning_nil", 1)
	}
	bad := false
	// a second stream, through another interceptor with its own limiters and transport, is opened (and used) while the
	// first one is in the middle of its handler: the first stream's later operations still belong to the first stream
	overlapAt := -1
	if r.IntN(3) == 0 {
		overlapAt = r.IntN(nops)
	}
	recv2, send2 := &recLimiter{lg: lg, name: "recv2", grant: true}, &recLimiter{lg: lg, name: "send2", grant: true}
	ic2 := gclGrpc.StreamServerInterceptor(gclGrpc.WithStreamRecvLimiter(recv2), gclGrpc.WithStreamSendLimiter(send2))
	secondStream := func() bool {
		fs2 := &fakeStream{lg: lg, ctx: context.Background(), tag: "2"}
		okAll := true
		_ = ic2("srv2", fs2, &golangGrpc.StreamServerInfo{FullMethod: "/svc/S2"}, func(srv interface{}, ss2 golangGrpc.ServerStream) error {
			for k := 0; k < 1+r.IntN(2); k++ {
				lg.ev = nil
				dir := "recv"
				if r.IntN(2) == 0 {
					dir = "send"
					_ = ss2.SendMsg("m2")
				} else {
					_ = ss2.RecvMsg("m2")
				}
				nA, _ := count(lg.ev, "acquire:"+dir+"2")
				nT, _ := count(lg.ev, "acquire:")
				nW, _ := count(lg.ev, "wrapped2:"+dir)
				nC, _ := count(lg.ev, "complete:"+dir+"2")
				if nA != 1 || nT != 1 || nW != 1 || nC != 1 {
					okAll = false
					rt.Violation("C14/stream-"+dir+"/second-open-stream-did-not-run-on-its-own-limiter-and-transport", idx, rt.J{"events": lg.ev})
				}
			}
			return nil
		})
		rt.Count("streams_opened_while_another_is_open", 1)
		return okAll
	}
	// chained: the interceptor under observation is the second of two stream interceptors of this package on one stream
	// (the first has limiters of its own, recorded apart): each gates every operation, the outer one included
	chained := overlapAt < 0 && r.IntN(5) == 0
	lg0 := &log{}
	recv0, send0 := &recLimiter{lg: lg0, name: "recv0", grant: true}, &recLimiter{lg: lg0, name: "send0", grant: true}
	ic0 := gclGrpc.StreamServerInterceptor(gclGrpc.WithStreamRecvLimiter(recv0), gclGrpc.WithStreamSendLimiter(send0))
	handler := func(srv interface{}, ss golangGrpc.ServerStream) error {
		for i := 0; i < nops && !bad; i++ {
			lg0.ev = nil
			if i == overlapAt && !secondStream() {
				bad = true
				return nil
			}
			send := r.IntN(2) == 0
			granted := r.IntN(4) != 0
			recvL.grant, sendL.grant = granted, granted
			var opErr error
			if r.IntN(2) == 0 {
				opErr = fmt.Errorf("stream op error %d", i)
				switch r.IntN(6) {
				case 0:
					// the sentinels a real stream returns; the operations after them are gated and passed through like any other
					opErr = io.EOF
					rt.Count("stream_ops_returning_io_EOF", 1)
				case 1:
					opErr = []error{context.Canceled, context.DeadlineExceeded, io.ErrUnexpectedEOF}[r.IntN(3)]
				case 2:
					opErr = status.Error(codeChoices[r.IntN(len(codeChoices))], "stream status")
				}
			}
			fs.recvErr, fs.sendErr = opErr, opErr
			clsOut = r.IntN(3)
			lg.ev = nil
			curMsg, curErr = &struct{ M int }{i}, opErr
			var got error
			name, lim, other, used, tag := "recv", "recv", "send", useRecvL, "wrapped:recv"
			if send {
				name, lim, other, used, tag = "send", "send", "recv", useSendL, "wrapped:send"
				got = ss.SendMsg(curMsg)
			} else {
				got = ss.RecvMsg(curMsg)
			}
			seq = append(seq, fmt.Sprintf("%s granted=%v err=%v", name, granted, opErr != nil))
			rt.Count("stream_ops", 1)
			cfg := rt.J{"kind": "stream-" + name, "op_index": i, "ops_so_far": seq, "granted": granted, "with_recv_limiter": useRecvL,
				"with_send_limiter": useSendL, "with_server_response_classifier": useSrvCls, "with_client_response_classifier": useCliCls, "with_exceeded_classifiers": useExc,
				"op_error": fmt.Sprint(opErr), "classifier_result": outcomes[clsOut]}
			fail := func(sig string, extra rt.J) {
				extra["config"], extra["events"] = cfg, lg.ev
				rt.Violation("C14/stream-"+name+"/"+sig, idx, extra)
				bad = true
			}
			if !used {
				// this direction runs on the default limiter: the other (recording) limiter must not be touched
				if n, _ := count(lg.ev, "acquire:"); n > 0 {
					fail("acquired-from-wrong-limiter", rt.J{})
					return nil
				}
				if n, _ := count(lg.ev, tag); n != 1 {
					fail("default-limiter-wrapped-call-count", rt.J{"count": n})
					return nil
				}
				if got != opErr {
					fail("result-not-returned-unchanged", rt.J{"got": fmt.Sprint(got)})
					return nil
				}
				continue
			}
			want := "success"
			needCls := false
			if opErr != nil {
				switch {
				case useSrvCls && useCliCls:
					want, needCls = outcomes[clsOut], true
				case useSrvCls || useCliCls:
					// one classifier configured: this direction is served either by it or by the default (error => dropped), and a
					// classifier serves one direction only - never both
					ns, _ := count(lg.ev, "classify:stream-server")
					nc, _ := count(lg.ev, "classify:stream-client")
					consulted := ""
					if ns > 0 {
						consulted = "classify:stream-server"
					} else if nc > 0 {
						consulted = "classify:stream-client"
					}
					want = "dropped"
					if consulted != "" {
						want = outcomes[clsOut]
						if ns+nc != 1 || (ns > 0 && !useSrvCls) || (nc > 0 && !useCliCls) {
							fail("classifier-consultation-count", rt.J{"server": ns, "client": nc})
							return nil
						}
						if d, seen := servedBy[consulted]; seen && d != name {
							fail("one-response-classifier-consulted-for-both-directions", rt.J{"classifier": consulted, "first_served": d, "now": name})
							return nil
						}
						servedBy[consulted] = name
					}
					rt.Count("stream_ops_with_only_one_response_classifier_configured", 1)
				default:
					want = "dropped"
				}
			}
			if !judge(idx, "stream-"+name, lg, cfg, lim, []string{other, "recv2", "send2"}, granted, tag, want,
				[]string{"classify:stream-server", "classify:stream-client"}, needCls) {
				bad = true
				return nil
			}
			if chained && granted {
				// the outer interceptor gated the very same operation on its own limiter, once
				nA, _ := count(lg0.ev, "acquire:"+name+"0")
				nT, _ := count(lg0.ev, "acquire:")
				nC, _ := count(lg0.ev, "complete:"+name+"0")
				if nA != 1 || nT != 1 || nC != 1 {
					fail("outer-interceptor-of-a-chain-did-not-gate-the-operation-once", rt.J{"outer_events": lg0.ev})
					return nil
				}
			}
			if granted {
				if got != opErr {
					fail("result-not-returned-unchanged", rt.J{"got": fmt.Sprint(got)})
					return nil
				}
				rt.Count("granted_calls_checked", 1)
			} else {
				wantCode := codes.ResourceExhausted
				if useExc {
					wantCode = recvCode
					if send {
						wantCode = sendCode
					}
					if n, _ := count(lg.ev, "exceeded:"+name); n != 1 {
						fail("limit-exceeded-classifier-of-this-direction-not-consulted-once", rt.J{"count": n})
						return nil
					}
				}
				if status.Code(got) != wantCode {
					fail("refusal-status-code-differs-from-classifier", rt.J{"got": status.Code(got).String(), "want": wantCode.String()})
					return nil
				}
				rt.Count("refused_calls_checked", 1)
			}
			if send {
				rt.Count("send_ops_on_recording_send_limiter", 1)
			} else {
				rt.Count("recv_ops_on_recording_recv_limiter", 1)
			}
		}
		return handlerRet
	}
	var ret error
	if chained {
		rt.Count("streams_behind_another_stream_interceptor", 1)
		ret = ic0("srv", fs, sinfo, func(srv interface{}, ss0 golangGrpc.ServerStream) error { return ic("srv", ss0, sinfo, handler) })
	} else {
		ret = ic("srv", fs, sinfo, handler)
	}
	if !bad && ret != handlerRet {
		rt.Violation("C14/stream/handler-result-not-returned-unchanged", idx, rt.J{"got": fmt.Sprint(ret)})
		return
	}
	if !bad {
		rt.Distinct(fmt.Sprintf("stream|%v|%v|%v|%v|%v", useRecvL, useSendL, useCls, useExc, seq))
		if rt.WantSample() && idx%133 == 1 {
			rt.Sample(rt.J{"kind": "stream", "ops": seq, "with_recv_limiter": useRecvL, "with_send_limiter": useSendL})
		}
	}
}

// blockingStream is a transport whose RecvMsg parks until released (operations in flight).
type blockingStream struct {
	golangGrpc.ServerStream
	inRecv  atomic.Int64
	release chan struct{}
	sends   atomic.Int64
}

func (b *blockingStream) Context() context.Context { return context.Background() }
func (b *blockingStream) RecvMsg(m interface{}) error {
	b.inRecv.Add(1)
	<-b.release
	return nil
}
func (b *blockingStream) SendMsg(m interface{}) error { b.sends.Add(1); return nil }

// defaultDirectionsCase: a stream interceptor with the default limiters (nothing configured).  Receive operations
// acquire from the receive limiter and send operations from the send limiter: with as many receives parked in the
// transport as the default limiter admits (documented initial limit 20), a send is still admitted and runs.
func defaultDirectionsCase(idx int64, r *rand.Rand) {
	var opts []gclGrpc.StreamInterceptorOption
	if r.IntN(2) == 0 {
		opts = append(opts, gclGrpc.WithStreamSendName("s"), gclGrpc.WithStreamRecvName("r"))
	}
	parkSends := r.IntN(2) == 0 // symmetric variant: park sends, then receive
	_ = parkSends
	bs := &blockingStream{release: make(chan struct{})}
	ic := gclGrpc.StreamServerInterceptor(opts...)
	var sendErr error
	granted := 0
	_ = ic("srv", bs, &golangGrpc.StreamServerInfo{FullMethod: "/svc/D", IsClientStream: r.IntN(2) == 0, IsServerStream: r.IntN(2) == 0}, func(srv interface{}, ss golangGrpc.ServerStream) error {
		var wg sync.WaitGroup
		errs := make([]error, 20)
		for i := 0; i < 20; i++ {
			wg.Add(1)
			go func(i int) { defer wg.Done(); errs[i] = ss.RecvMsg("m") }(i)
		}
		// wait (bounded) until every receive is either parked in the transport or has been refused
		for tries := 0; tries < 100000 && bs.inRecv.Load() < 20; tries++ {
			time.Sleep(100 * time.Microsecond) // generous (10 s): a loaded machine only makes this case slower
		}
		granted = int(bs.inRecv.Load())
		sendErr = ss.SendMsg("m")
		close(bs.release)
		wg.Wait()
		return nil
	})
	rt.Count("default_direction_cases", 1)
	if granted < 20 {
		rt.Inconclusive("C14 default-directions: fewer than 20 receives reached the transport")
		return
	}
	if sendErr != nil || bs.sends.Load() != 1 {
		rt.Violation("C14/stream-send/send-gated-by-the-receive-operations-in-flight", idx, rt.J{"receives_parked_in_the_transport": granted, "send_error": fmt.Sprint(sendErr), "transport_sends": bs.sends.Load(),
			"meaning": "send operations acquire from the send limiter; 20 receives in flight use up the receive limiter's default limit, not the send limiter's"})
		return
	}
	rt.Distinct(fmt.Sprintf("defdir|%d", len(opts)))
}

// sharedCase: one interceptor shared by 8 goroutines over a real DefaultLimiter; in-flight must return to 0.
func sharedCase(idx int64, r *rand.Rand) {
	st := strategy.NewSimpleStrategy(3)
	dl, err := limiter.NewDefaultLimiter(limit.NewFixedLimit("c14", 3, nil), 1, 1, 0, 10, st, limit.NoopLimitLogger{}, core.EmptyMetricRegistryInstance)
	if err != nil {
		panic(err)
	}
	nG := 8 + r.IntN(57)
	seeds := make([]uint64, nG)
	for i := range seeds {
		seeds[i] = r.Uint64()
	}
	// refusals go through the default limit-exceeded classifier (it formats the limiter into its message) while other
	// calls are being admitted and completed; a call that never returns is classified by the scenario watchdog
	rt.Scenario("C14/unary-server/shared-interceptor", idx, rt.J{"goroutines": nG})
	defer rt.ScenarioDone()
	ic := gclGrpc.UnaryServerInterceptor(gclGrpc.WithLimiter(dl), gclGrpc.WithServerResponseTypeClassifier(
		func(ctx context.Context, req interface{}, info *golangGrpc.UnaryServerInfo, rsp interface{}, err error) gclGrpc.ResponseType {
			return respTypes[req.(int)%3]
		}))
	var wg sync.WaitGroup
	var mu sync.Mutex
	refused, granted := 0, 0
	for g := 0; g < nG; g++ {
		wg.Add(1)
		go func(g int) {
			defer wg.Done()
			lr := rand.New(rand.NewPCG(seeds[g], 1))
			for i := 0; i < 40; i++ {
				_, err := ic(context.Background(), lr.IntN(3), &golangGrpc.UnaryServerInfo{FullMethod: "/m"}, func(ctx context.Context, req interface{}) (interface{}, error) {
					if lr.IntN(2) == 0 {
						runtime.Gosched()
					}
					return nil, nil
				})
				mu.Lock()
				if err != nil {
					refused++
				} else {
					granted++
				}
				mu.Unlock()
			}
		}(g)
	}
	wg.Wait()
	rt.Count("shared_interceptor_calls", int64(refused+granted))
	if st.GetBusyCount() != 0 || dl.VerifInFlight() != 0 {
		rt.Violation("C14/unary-server/shared-interceptor-leaks-tokens", idx, rt.J{"busy": st.GetBusyCount(), "inflight": dl.VerifInFlight(), "granted": granted, "refused": refused})
		return
	}
	rt.Distinct(fmt.Sprintf("shared|%d|%d|%d", seeds[0], granted, refused))
}

func TestCheck(t *testing.T) {
	rt.Cases(50000, 5000000, func(idx int64) {
		r := rt.CaseRand(14, idx)
		rt.Case()
		switch {
		case idx%50 == 49:
			sharedCase(idx, r)
		case idx%500 == 123:
			defaultDirectionsCase(idx, r)
		case idx%2 == 0:
			unaryCase(idx, r)
		default:
			streamCase(idx, r)
		}
	})
}
