// C11 — the queue limiter serves waiters in the configured order (FIFO / LIFO), for every way of constructing it.
package c11

import (
	"context"
	"fmt"
	"math/rand/v2"
	"runtime"
	"sync/atomic"
	"testing"
	"testing/synctest"
	"time"

	"github.com/platinummonkey/go-concurrency-limits/core"
	"github.com/platinummonkey/go-concurrency-limits/limit"
	"github.com/platinummonkey/go-concurrency-limits/limiter"
	"github.com/platinummonkey/go-concurrency-limits/patterns/pool"
	"github.com/platinummonkey/go-concurrency-limits/strategy"

	"verifharness/internal/rt"
)

func TestMain(m *testing.M) { rt.Main(m) }

type ctor struct {
	Name      string
	Order     string // fifo | lifo : what name and documentation state
	Evict     bool
	Timeout   time.Duration
	NoTimeout bool
	build     func(inner core.Limiter) core.Limiter // nil: pool with its own inner limiter
	pool      func() core.Limiter
}

// flaky is a delegate that may refuse one attempt although it has capacity (a delegate is free to refuse: a
// partitioned strategy, a limit that just shrank, a racing caller).  It lets a release reach the queue limiter's
// hand-off while the delegate says no.
type flaky struct {
	in     core.Limiter
	refuse atomic.Bool
	// onRefused, when armed, is called once after the inner limiter refused an attempt (a schedule point inside the
	// wrapper's hand-off: "the delegate has just said no")
	armed     atomic.Bool
	onRefused func()
	slow      atomic.Int64 // yields per attempt
}

func (f *flaky) Acquire(ctx context.Context) (core.Listener, bool) {
	if f.refuse.CompareAndSwap(true, false) {
		return nil, false
	}
	l, ok := f.in.Acquire(ctx)
	if f.slow.Load() > 0 { // a slow delegate: whoever asks it yields before it gets its answer
		for i := int64(0); i < f.slow.Load(); i++ {
			runtime.Gosched()
		}
	}
	if !ok && f.onRefused != nil && f.armed.CompareAndSwap(true, false) {
		f.onRefused()
	}
	return l, ok
}

func inner(capacity int) core.Limiter {
	dl, err := limiter.NewDefaultLimiter(limit.NewFixedLimit("c11", capacity, nil), 1e9, 1e9, 1e5, 100,
		strategy.NewPreciseStrategy(capacity), limit.NoopLimitLogger{}, core.EmptyMetricRegistryInstance)
	if err != nil {
		panic(err)
	}
	return dl
}

func ctors() []ctor {
	h := time.Hour
	cfg := func(o limiter.QueueOrdering, evict bool) func(core.Limiter) core.Limiter {
		return func(in core.Limiter) core.Limiter {
			return limiter.NewQueueBlockingLimiterFromConfig(in, limiter.QueueLimiterConfig{Ordering: o, MaxBacklogSize: 50, MaxBacklogTimeout: h, BacklogEvictDoneCtx: evict})
		}
	}
	never := 100 * 365 * 24 * time.Hour // no backlog timeout at all (a negative MaxBacklogTimeout): a queued caller leaves only by being served or, with eviction, cancelled
	noTimeout := func(o limiter.QueueOrdering) func(core.Limiter) core.Limiter {
		return func(in core.Limiter) core.Limiter {
			return limiter.NewQueueBlockingLimiterFromConfig(in, limiter.QueueLimiterConfig{Ordering: o, MaxBacklogSize: 50, MaxBacklogTimeout: -1, BacklogEvictDoneCtx: true})
		}
	}
	return []ctor{
		{Name: "FromConfig{fifo,evict,no-timeout}", Order: "fifo", Evict: true, Timeout: never, NoTimeout: true, build: noTimeout(limiter.OrderingFIFO)},
		{Name: "FromConfig{lifo,evict,no-timeout}", Order: "lifo", Evict: true, Timeout: never, NoTimeout: true, build: noTimeout(limiter.OrderingLIFO)},
		{Name: "FromConfig{default-ordering,evict,no-timeout}", Order: "lifo", Evict: true, Timeout: never, NoTimeout: true, build: noTimeout("")},
		{Name: "FromConfig{fifo}", Order: "fifo", Timeout: h, build: cfg(limiter.OrderingFIFO, false)},
		{Name: "FromConfig{fifo,evict}", Order: "fifo", Evict: true, Timeout: h, build: cfg(limiter.OrderingFIFO, true)},
		{Name: "FromConfig{lifo}", Order: "lifo", Timeout: h, build: cfg(limiter.OrderingLIFO, false)},
		{Name: "FromConfig{lifo,evict}", Order: "lifo", Evict: true, Timeout: h, build: cfg(limiter.OrderingLIFO, true)},
		{Name: "FromConfig{default-ordering}", Order: "lifo", Timeout: h, build: cfg("", false)},
		{Name: "FromConfig{default-ordering,evict}", Order: "lifo", Evict: true, Timeout: h, build: cfg("", true)},
		{Name: "WithDefaults", Order: "lifo", Timeout: time.Second, build: func(in core.Limiter) core.Limiter { return limiter.NewQueueBlockingLimiterWithDefaults(in) }},
		{Name: "NewFifoBlockingLimiter", Order: "fifo", Timeout: h, build: func(in core.Limiter) core.Limiter { return limiter.NewFifoBlockingLimiter(in, 50, h) }},
		{Name: "NewFifoBlockingLimiterWithDefaults", Order: "fifo", Timeout: time.Second, build: func(in core.Limiter) core.Limiter { return limiter.NewFifoBlockingLimiterWithDefaults(in) }},
		{Name: "NewLifoBlockingLimiter", Order: "lifo", Timeout: h, build: func(in core.Limiter) core.Limiter { return limiter.NewLifoBlockingLimiter(in, 50, h, nil) }},
		{Name: "NewLifoBlockingLimiterWithDefaults", Order: "lifo", Timeout: time.Second, build: func(in core.Limiter) core.Limiter { return limiter.NewLifoBlockingLimiterWithDefaults(in) }},
		{Name: "FixedPool{OrderingFIFO}", Order: "fifo", Timeout: h, pool: func() core.Limiter {
			p, err := pool.NewFixedPool("p", pool.OrderingFIFO, 1, -1, -1, -1, -1, 50, h, nil, nil)
			if err != nil {
				panic(err)
			}
			return p
		}},
		{Name: "FixedPool{OrderingLIFO}", Order: "lifo", Timeout: h, pool: func() core.Limiter {
			p, err := pool.NewFixedPool("p", pool.OrderingLIFO, 1, -1, -1, -1, -1, 50, h, nil, nil)
			if err != nil {
				panic(err)
			}
			return p
		}},
		{Name: "Pool{OrderingFIFO,maxBacklog=0}", Order: "fifo", Timeout: h, build: func(in core.Limiter) core.Limiter {
			p, err := pool.NewPool(in, pool.OrderingFIFO, 0, h, nil, nil) // <= 0: default backlog size
			if err != nil {
				panic(err)
			}
			return p
		}},
		{Name: "Pool{OrderingLIFO,maxBacklog=0}", Order: "lifo", Timeout: h, build: func(in core.Limiter) core.Limiter {
			p, err := pool.NewPool(in, pool.OrderingLIFO, 0, h, nil, nil)
			if err != nil {
				panic(err)
			}
			return p
		}},
		{Name: "Pool{OrderingFIFO,maxBacklog=-1}", Order: "fifo", Timeout: h, build: func(in core.Limiter) core.Limiter {
			p, err := pool.NewPool(in, pool.OrderingFIFO, -1, h, nil, nil)
			if err != nil {
				panic(err)
			}
			return p
		}},
		{Name: "FixedPool{OrderingLIFO,maxBacklog=0}", Order: "lifo", Timeout: h, pool: func() core.Limiter {
			p, err := pool.NewFixedPool("p", pool.OrderingLIFO, 1, -1, -1, -1, -1, 0, h, nil, nil)
			if err != nil {
				panic(err)
			}
			return p
		}},
		{Name: "FixedPool{OrderingFIFO,maxBacklog=-1}", Order: "fifo", Timeout: h, pool: func() core.Limiter {
			p, err := pool.NewFixedPool("p", pool.OrderingFIFO, 1, -1, -1, -1, -1, -1, h, nil, nil)
			if err != nil {
				panic(err)
			}
			return p
		}},
		{Name: "Pool{OrderingFIFO}", Order: "fifo", Timeout: h, build: func(in core.Limiter) core.Limiter {
			p, err := pool.NewPool(in, pool.OrderingFIFO, 50, h, nil, nil)
			if err != nil {
				panic(err)
			}
			return p
		}},
		{Name: "Pool{OrderingLIFO}", Order: "lifo", Timeout: h, build: func(in core.Limiter) core.Limiter {
			p, err := pool.NewPool(in, pool.OrderingLIFO, 50, h, nil, nil)
			if err != nil {
				panic(err)
			}
			return p
		}},
	}
}

type waiter struct {
	id      int
	cancel  context.CancelFunc
	done    atomic.Bool
	ok      bool
	l       core.Listener
	arrived time.Duration
	gone    bool // model: cancelled or timed out
	seen    bool // grant/refusal already consumed by the driver
}

func scenario(t *testing.T, idx int64, c ctor, r *rand.Rand) {
	var trace []string
	grants := 0
	bubble(t, func(t *testing.T) {
		start := time.Now()
		now := func() time.Duration { return time.Since(start) }
		var lim core.Limiter
		var fl *flaky
		if c.pool != nil {
			lim = c.pool()
		} else {
			fl = &flaky{in: inner(1)}
			lim = c.build(fl)
		}
		holder, ok := lim.Acquire(context.Background())
		if !ok {
			panic("c11: first token refused")
		}
		var ws []*waiter
		var waiting []*waiter // model: arrival order, still waiting
		fail := func(sig string, extra rt.J) {
			extra["constructor"], extra["documented_order"], extra["trace"] = c.Name, c.Order, trace
			rt.Violation("C11/"+c.Name+"/"+sig, idx, extra)
		}
		bad := false
		// expire: whoever reached its backlog timeout (virtual time moved) must have been refused
		expire := func() {
			synctest.Wait()
			var still []*waiter
			for _, w := range waiting {
				if w.arrived+c.Timeout <= now() {
					w.gone = true
					if !w.done.Load() || w.ok {
						fail("timed-out-waiter-not-refused", rt.J{"waiter": w.id})
						bad = true
					}
					w.seen = true
					trace = append(trace, fmt.Sprintf("t=%v waiter %d timed out", now(), w.id))
				} else {
					still = append(still, w)
				}
			}
			waiting = still
		}
		nops := 6 + r.IntN(14)
		maxW := 2 + r.IntN(7)
		for i := 0; i < nops && !bad; i++ {
			x := r.IntN(10)
			switch {
			case x < 5 && len(ws) < 12 && len(waiting) < maxW: // arrival
				time.Sleep(time.Duration(1+r.IntN(5)) * time.Millisecond) // staggered, distinct arrival instants
				expire()
				ctx, cancel := context.WithCancel(context.Background())
				kindOfCtx := ""
				switch {
				case c.Evict && r.IntN(6) == 0:
					// the caller's context is already done when it arrives (eviction on): it is turned away at once and never
					// becomes part of the line
					cancel()
					kindOfCtx = "done-on-arrival"
				case !c.Evict && r.IntN(5) == 0:
					// a context whose own deadline passes while the caller is queued (eviction off: it keeps its place)
					ctx, cancel = context.WithDeadline(context.Background(), time.Now().Add(time.Duration(1+r.IntN(3))*time.Millisecond))
					kindOfCtx = "deadline-expires-while-queued"
				}
				w := &waiter{id: len(ws), cancel: cancel, arrived: now()}
				ws = append(ws, w)
				if kindOfCtx != "done-on-arrival" {
					waiting = append(waiting, w)
				}
				go func() {
					w.l, w.ok = lim.Acquire(ctx)
					w.done.Store(true)
				}()
				synctest.Wait()
				trace = append(trace, fmt.Sprintf("t=%v waiter %d arrives %s", now(), w.id, kindOfCtx))
				if kindOfCtx == "done-on-arrival" {
					rt.Count("arrivals_with_a_done_context", 1)
					w.gone, w.seen = true, true
					if !w.done.Load() || w.ok {
						fail("caller-with-a-done-context-not-turned-away-at-once", rt.J{"waiter": w.id, "returned": w.done.Load(), "ok": w.ok})
						bad = true
					}
					continue
				}
				if kindOfCtx != "" {
					rt.Count("arrivals_whose_context_deadline_passes_while_queued", 1)
				}
				if w.done.Load() {
					fail("waiter-returned-although-capacity-exhausted", rt.J{"waiter": w.id, "ok": w.ok})
					bad = true
				}
			case x < 6 && c.Evict && len(waiting) > 0: // cancellation
				k := r.IntN(len(waiting))
				w := waiting[k]
				waiting = append(waiting[:k], waiting[k+1:]...)
				w.gone = true
				w.cancel()
				synctest.Wait()
				trace = append(trace, fmt.Sprintf("t=%v waiter %d cancelled", now(), w.id))
				if !w.done.Load() || w.ok {
					fail("cancelled-waiter-not-refused", rt.J{"waiter": w.id})
					bad = true
				}
				w.seen = true
			case x < 7 && c.Timeout <= time.Second && len(waiting) > 0: // let the oldest waiters time out (staggered)
				oldest := waiting[0]
				target := oldest.arrived + c.Timeout + 500*time.Microsecond
				if target > now() {
					time.Sleep(target - now())
				}
				expire()
			case x < 8 && fl != nil && holder != nil && len(waiting) > 0:
				// a release whose hand-off attempt the delegate refuses: nobody may be granted and the order of the
				// backlog must be unaffected; the driver then takes the free unit back so that capacity stays exhausted
				fl.refuse.Store(true)
				holder.OnIgnore()
				holder = nil
				synctest.Wait()
				fl.refuse.Store(false)
				for _, w := range ws {
					if w.done.Load() && !w.seen {
						fail("waiter-returned-although-delegate-refused-the-hand-off", rt.J{"waiter": w.id, "ok": w.ok})
						bad = true
					}
				}
				// while the refused unit lies free at the delegate, a caller that is NOT next in order leaves (cancelled, eviction
				// on): leaving is all it may do - the free unit is not its to take ahead of the callers still waiting
				if c.Evict && len(waiting) >= 2 && r.IntN(2) == 0 {
					k := r.IntN(len(waiting) - 1) // fifo: anyone but the oldest ...
					if c.Order == "fifo" {
						k++
					} // ... lifo: anyone but the newest
					w := waiting[k]
					waiting = append(waiting[:k], waiting[k+1:]...)
					w.gone = true
					w.cancel()
					synctest.Wait()
					trace = append(trace, fmt.Sprintf("t=%v waiter %d (not next in order) cancelled while a unit lies free at the delegate", now(), w.id))
					rt.Count("departures_while_a_unit_lies_free", 1)
					if !w.done.Load() || w.ok {
						fail("departing-caller-took-a-free-unit-ahead-of-the-callers-still-waiting", rt.J{"waiter": w.id, "returned": w.done.Load(), "ok": w.ok})
						bad = true
						continue
					}
					w.seen = true
				}
				h, ok := fl.in.Acquire(context.Background())
				if !ok {
					fail("free-capacity-refused", rt.J{})
					bad = true
					continue
				}
				// hold the unit through a listener of the wrapper's own kind so that its completion unblocks the queue
				h.OnIgnore()
				h2, ok := lim.Acquire(context.Background())
				if !ok {
					fail("free-capacity-refused", rt.J{})
					bad = true
					continue
				}
				holder = h2
				synctest.Wait()
				trace = append(trace, fmt.Sprintf("t=%v release whose hand-off the delegate refused; unit taken back", now()))
				rt.Count("releases_with_refused_handoff", 1)
			case x == 8 && holder != nil && len(waiting) >= 2 && (c.Evict || c.Timeout <= time.Second):
				// a release that coincides with the departure of a caller: (a) eviction on - the caller is cancelled and the
				// holder completes in the same breath, the cancelled caller has not left the backlog yet; (b) the holder
				// completes at the very instant the oldest caller's backlog time-out fires.  The token must end up with
				// exactly one caller: the one that was next in order counting the departing caller (it was still queued when
				// the hand-off happened) or the one that is next among those who stay.
				head := func(ws []*waiter) *waiter {
					if len(ws) == 0 {
						return nil
					}
					if c.Order == "lifo" {
						return ws[len(ws)-1]
					}
					return ws[0]
				}
				all := append([]*waiter(nil), waiting...)
				var leaving []*waiter
				what := ""
				if c.Evict && (c.Timeout > time.Second || r.IntN(2) == 0) {
					w := head(waiting)
					if r.IntN(3) == 0 {
						w = waiting[r.IntN(len(waiting))]
					}
					leaving = []*waiter{w}
					what = fmt.Sprintf("waiter %d cancelled and holder completes at once", w.id)
					w.cancel()
				} else {
					target := waiting[0].arrived + c.Timeout
					if target > now() {
						time.Sleep(target - now())
					}
					for _, w := range waiting {
						if w.arrived+c.Timeout <= now() {
							leaving = append(leaving, w)
						}
					}
					what = fmt.Sprintf("holder completes at the instant the backlog time-out of %d caller(s) fires", len(leaving))
				}
				holder.OnSuccess()
				holder = nil
				synctest.Wait()
				var stay []*waiter
				for _, w := range all {
					isLeaving := false
					for _, e := range leaving {
						isLeaving = isLeaving || e == w
					}
					if !isLeaving {
						stay = append(stay, w)
					}
				}
				var got []*waiter
				for _, w := range all {
					if w.done.Load() && !w.seen && w.ok {
						got = append(got, w)
					}
				}
				ids := []int{}
				for _, w := range all {
					ids = append(ids, w.id)
				}
				trace = append(trace, fmt.Sprintf("t=%v %s (waiting, oldest first: %v)", now(), what, ids))
				rt.Count("releases_coinciding_with_a_departure", 1)
				for _, w := range leaving {
					if !w.done.Load() {
						fail("departing-waiter-did-not-return", rt.J{"waiter": w.id, "what": what})
						bad = true
					}
					w.gone, w.seen = true, true
				}
				waiting = stay
				if bad {
					continue
				}
				if len(got) > 1 || (len(got) == 0 && len(stay) > 0) {
					fail("release-coinciding-with-a-departure-did-not-grant-exactly-one-waiter", rt.J{"granted": len(got), "waiting_in_arrival_order": ids, "what": what})
					bad = true
					continue
				}
				if len(got) == 0 { // everybody left: take the unit back
					h, ok := lim.Acquire(context.Background())
					if !ok {
						fail("free-capacity-refused", rt.J{})
						bad = true
					}
					holder = h
					continue
				}
				g := got[0]
				if g != head(all) && g != head(stay) {
					fail("granted-out-of-configured-order", rt.J{"granted": g.id, "waiting_in_arrival_order": ids, "what": what})
					bad = true
					continue
				}
				g.seen = true
				grants++
				rt.Count("grants_checked", 1)
				rt.Count("grants_with_a_choice", 1)
				trace = append(trace, fmt.Sprintf("t=%v -> waiter %d granted", now(), g.id))
				for k, w := range waiting {
					if w == g {
						waiting = append(waiting[:k], waiting[k+1:]...)
						break
					}
				}
				holder = g.l
			case x == 9 && holder != nil && len(ws) < 12 && len(waiting) < maxW:
				// a caller arrives and, while it is on its way into the backlog (verif point before the push), the holder
				// completes in another goroutine.  The arriving caller counts as queued: the unit goes to the caller the
				// order designates among the queued ones and the newcomer - never to nobody.
				time.Sleep(time.Duration(1+r.IntN(5)) * time.Millisecond)
				expire()
				var fired atomic.Bool
				h := holder
				holder = nil
				yields := []int{200, 2000}[r.IntN(2)]
				limiter.SetVerifHook(func(name string) {
					if name == "queue.before_push" && fired.CompareAndSwap(false, true) {
						var done atomic.Bool
						go func() { h.OnSuccess(); done.Store(true) }()
						for i := 0; i < yields && !done.Load(); i++ {
							runtime.Gosched()
						}
					}
				})
				ctx, cancel := context.WithCancel(context.Background())
				w := &waiter{id: len(ws), cancel: cancel, arrived: now()}
				ws = append(ws, w)
				waiting = append(waiting, w)
				go func() {
					w.l, w.ok = lim.Acquire(ctx)
					w.done.Store(true)
				}()
				synctest.Wait()
				limiter.SetVerifHook(nil)
				if !fired.Load() {
					h.OnSuccess()
					synctest.Wait()
				}
				rt.Count("releases_landing_on_an_arriving_caller", 1)
				var got []*waiter
				for _, x := range ws {
					if x.done.Load() && !x.seen {
						x.seen = true
						got = append(got, x)
					}
				}
				want := waiting[0]
				if c.Order == "lifo" {
					want = waiting[len(waiting)-1]
				}
				ids := []int{}
				for _, x := range waiting {
					ids = append(ids, x.id)
				}
				trace = append(trace, fmt.Sprintf("t=%v waiter %d arrives while the holder completes (queued incl. the newcomer, oldest first: %v)", now(), w.id, ids))
				if len(got) != 1 || !got[0].ok || got[0].l == nil {
					fail("release-landing-on-an-arriving-caller-did-not-grant-exactly-one-waiter", rt.J{"returned": len(got), "waiting_in_arrival_order": ids})
					bad = true
					continue
				}
				if got[0] != want {
					fail("granted-out-of-configured-order", rt.J{"granted": got[0].id, "expected": want.id, "waiting_in_arrival_order": ids, "what": "release landing on an arriving caller"})
					bad = true
					continue
				}
				grants++
				rt.Count("grants_checked", 1)
				for k, x := range waiting {
					if x == want {
						waiting = append(waiting[:k], waiting[k+1:]...)
						break
					}
				}
				holder = got[0].l
			default: // release
				if holder == nil {
					continue
				}
				switch r.IntN(3) {
				case 0:
					holder.OnSuccess()
				case 1:
					holder.OnIgnore()
				default:
					holder.OnDropped()
				}
				holder = nil
				synctest.Wait()
				var got []*waiter
				for _, w := range ws {
					if w.done.Load() && !w.seen {
						w.seen = true
						got = append(got, w)
					}
				}
				if len(waiting) == 0 {
					trace = append(trace, fmt.Sprintf("t=%v release, nobody waiting", now()))
					if len(got) != 0 {
						fail("grant-without-waiter", rt.J{})
						bad = true
					}
					// take the token back so the next arrivals block again
					h, ok := lim.Acquire(context.Background())
					if !ok {
						fail("free-capacity-refused", rt.J{})
						bad = true
					}
					holder = h
					continue
				}
				want := waiting[0]
				if c.Order == "lifo" {
					want = waiting[len(waiting)-1]
				}
				ids := []int{}
				for _, w := range waiting {
					ids = append(ids, w.id)
				}
				if len(got) != 1 || !got[0].ok || got[0].l == nil {
					fail("release-did-not-grant-exactly-one-waiter", rt.J{"returned": len(got), "waiting_in_arrival_order": ids})
					bad = true
					continue
				}
				trace = append(trace, fmt.Sprintf("t=%v release -> waiter %d granted (waiting, oldest first: %v)", now(), got[0].id, ids))
				grants++
				rt.Count("grants_checked", 1)
				if len(waiting) > 1 {
					rt.Count("grants_with_a_choice", 1)
				}
				if got[0] != want {
					fail("granted-out-of-configured-order", rt.J{"granted": got[0].id, "expected": want.id, "waiting_in_arrival_order": ids})
					bad = true
					continue
				}
				for k, w := range waiting {
					if w == want {
						waiting = append(waiting[:k], waiting[k+1:]...)
						break
					}
				}
				holder = got[0].l
			}
		}
		// cleanup: cancel everything, let timeouts pass, complete every grant
		for _, w := range ws {
			w.cancel()
		}
		synctest.Wait()
		if !c.NoTimeout {
			time.Sleep(c.Timeout + time.Second)
		}
		synctest.Wait()
		if holder != nil {
			holder.OnIgnore()
		}
		for round := 0; round < 20; round++ {
			synctest.Wait()
			prog := false
			for _, w := range ws {
				if w.done.Load() && w.ok && w.l != nil && !w.seen {
					w.seen = true
					w.l.OnIgnore()
					prog = true
				}
			}
			if !prog {
				break
			}
		}
	})
	rt.DistinctIn("grant_sequences_observed", fmt.Sprintf("%s|%v", c.Order, trace))
	rt.Count("scenarios/"+c.Order, 1)
	rt.Count("constructor/"+c.Name, 1)
	if grants >= 2 {
		rt.Distinct(fmt.Sprintf("%s|%v", c.Name, trace))
	}
	if rt.WantSample() && idx%31 == 7 {
		rt.Sample(rt.J{"constructor": c.Name, "documented_order": c.Order, "trace": trace})
	}
}

// twoHolders: capacity 2, both units held, three callers queued (arrival order fixed by quiescence).  The first holder
// completes; should the limiter, while serving the backlog for that release, ask the delegate once more and be
// refused, the second holder completes at that very moment in another goroutine (otherwise right afterwards).  Two
// units were released, so exactly the first two callers in the configured order hold them now, whatever the overlap.
func twoHolders(t *testing.T, idx int64, c ctor, r *rand.Rand) {
	if c.build == nil {
		return
	}
	var trace []string
	bubble(t, func(t *testing.T) {
		fl := &flaky{in: inner(2)}
		lim := c.build(fl)
		h1, ok1 := lim.Acquire(context.Background())
		h2, ok2 := lim.Acquire(context.Background())
		if !ok1 || !ok2 {
			panic("c11: two units refused")
		}
		var ws []*waiter
		for i := 0; i < 3; i++ {
			time.Sleep(time.Millisecond)
			ctx, cancel := context.WithCancel(context.Background())
			w := &waiter{id: i, cancel: cancel}
			ws = append(ws, w)
			go func() {
				w.l, w.ok = lim.Acquire(ctx)
				w.done.Store(true)
			}()
			synctest.Wait()
		}
		var second atomic.Bool
		yields := []int{200, 2000}[r.IntN(2)]
		fl.onRefused = func() {
			done := make(chan struct{})
			second.Store(true)
			go func() { h2.OnSuccess(); close(done) }()
			for i := 0; i < yields; i++ {
				select {
				case <-done:
					return
				default:
					runtime.Gosched()
				}
			}
		}
		parallel := r.IntN(2) == 0
		if parallel {
			// both holders complete at the same moment, each from its own goroutine, over a slow delegate
			fl.slow.Store(int64(yields / 4))
			second.Store(true)
			go h2.OnSuccess()
			rt.Count("two_holder_rounds_with_parallel_releases", 1)
		} else {
			fl.armed.Store(true)
		}
		h1.OnSuccess()
		synctest.Wait()
		fl.armed.Store(false)
		fl.slow.Store(0)
		if second.Load() {
			trace = append(trace, "second holder completed while the first release's hand-off was being refused")
			rt.Count("two_holder_rounds_with_overlapping_second_release", 1)
		} else {
			h2.OnSuccess()
			synctest.Wait()
		}
		rt.Count("two_holder_rounds", 1)
		var got []int
		for _, w := range ws {
			if w.done.Load() && w.ok {
				got = append(got, w.id)
			}
		}
		want := []int{0, 1}
		if c.Order == "lifo" {
			want = []int{1, 2}
		}
		if fmt.Sprint(got) != fmt.Sprint(want) {
			rt.Violation("C11/"+c.Name+"/two-released-units-not-held-by-the-first-two-callers-in-order", idx, rt.J{"constructor": c.Name, "documented_order": c.Order,
				"granted_waiters(arrival ids)": got, "expected": want, "trace": trace})
		}
		for _, w := range ws {
			w.cancel()
		}
		synctest.Wait()
		if !c.NoTimeout {
			time.Sleep(c.Timeout + time.Second)
		}
		synctest.Wait()
		for round := 0; round < 5; round++ {
			for _, w := range ws {
				if w.done.Load() && w.ok && w.l != nil && !w.seen {
					w.seen = true
					w.l.OnIgnore()
				}
			}
			synctest.Wait()
		}
	})
	rt.Distinct(fmt.Sprintf("two|%s|%v", c.Name, trace))
}

// releaseWhileTheLockIsBusy: one unit, held; two callers queued; a third is inside its slow path (paused at the
// schedule point before its push, i.e. while it owns the limiter's lock) when the holder completes in another goroutine
// which, as soon as the completion has returned, asks for a token itself.  A completion that has returned has offered its
// unit to the queue: the late-comer cannot have it while older callers wait; who gets it is decided by the ordering.
func releaseWhileTheLockIsBusy(t *testing.T, idx int64, c ctor, r *rand.Rand) {
	if c.build == nil {
		return // pools with their own inner limiter are covered through the generic pools
	}
	type wt struct {
		id   int
		done atomic.Bool
		ok   bool
		l    core.Listener
	}
	var ws []*wt
	var late wt
	yields := []int{200, 2000, 20000}[r.IntN(3)]
	rt.Scenario("C11/"+c.Name+"/release-while-the-lock-is-busy", idx, rt.J{"constructor": c.Name})
	defer rt.ScenarioDone()
	bubble(t, func(t *testing.T) {
		lim := c.build(inner(1))
		holder, ok := lim.Acquire(context.Background())
		if !ok {
			panic("c11: first unit refused")
		}
		ctx, cancel := context.WithCancel(context.Background())
		spawn := func() {
			w := &wt{id: len(ws)}
			ws = append(ws, w)
			go func() { w.l, w.ok = lim.Acquire(ctx); w.done.Store(true) }()
		}
		spawn()
		synctest.Wait()
		time.Sleep(time.Millisecond)
		spawn()
		synctest.Wait()
		time.Sleep(time.Millisecond)
		var once atomic.Bool
		limiter.SetVerifHook(func(name string) {
			if name != "queue.before_push" || !once.CompareAndSwap(false, true) {
				return
			}
			go func() {
				holder.OnSuccess()
				late.l, late.ok = lim.Acquire(ctx)
				late.done.Store(true)
			}()
			for i := 0; i < yields; i++ {
				runtime.Gosched()
			}
		})
		spawn() // the third caller: pauses before its push
		synctest.Wait()
		limiter.SetVerifHook(nil)
		var granted []int
		for _, w := range ws {
			if w.done.Load() && w.ok {
				granted = append(granted, w.id)
			}
		}
		lateGranted := late.done.Load() && late.ok
		want := 0
		if c.Order == "lifo" {
			want = 2
		}
		rt.Count("releases_while_the_limiter_lock_was_busy", 1)
		if lateGranted || len(granted) != 1 || granted[0] != want {
			rt.Violation("C11/"+c.Name+"/release-while-the-lock-was-busy-not-granted-in-the-configured-order", idx, rt.J{"constructor": c.Name, "documented_order": c.Order,
				"queued_callers_granted(arrival ids)": granted, "expected": want, "caller_that_arrived_after_the_release_returned_was_granted": lateGranted, "pause_yields": yields})
		}
		// clean up: everybody leaves or is served in turn
		cancel()
		synctest.Wait()
		if !c.NoTimeout {
			time.Sleep(c.Timeout + time.Second)
		}
		for round := 0; round < 8; round++ {
			synctest.Wait()
			for _, w := range append(ws, &late) {
				if w.done.Load() && w.ok && w.l != nil {
					w.l.OnIgnore()
					w.l = nil
				}
			}
		}
		synctest.Wait()
	})
}

func TestCheck(t *testing.T) {
	cs := ctors()
	rt.Cases(3000, 1500000, func(idx int64) {
		r := rt.CaseRand(11, idx)
		rt.Case()
		if idx%20 == 19 {
			twoHolders(t, idx, cs[int(idx/20)%len(cs)], r)
			return
		}
		if idx%20 == 9 {
			releaseWhileTheLockIsBusy(t, idx, cs[int(idx/20)%len(cs)], r)
			return
		}
		scenario(t, idx, cs[int(idx)%len(cs)], r)
	})
}

// bubble runs f in a synctest bubble; a bubble that cannot end (goroutines left blocked) is recorded, not fatal.
func bubble(t *testing.T, f func(*testing.T)) {
	rt.Bubble(func() { synctest.Test(t, f) }, "C11")
}
