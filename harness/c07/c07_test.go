// C07 — growth is demand-gated (app-limited samples never raise the estimate) and healthy saturation always
// recovers the limit (bounded-progress form: ceiling-1 reached within a configuration-derived bound; only a
// run that stopped rising counts as a violation, a still-rising run at the cap is inconclusive).
package c07

import (
	"fmt"
	"math"
	"math/rand/v2"
	"sync"
	"testing"

	"github.com/platinummonkey/go-concurrency-limits/core"
	"github.com/platinummonkey/go-concurrency-limits/limit"

	"verifharness/internal/limgen"
	"verifharness/internal/lin"
	"verifharness/internal/rt"
)

func TestMain(m *testing.M) { rt.Main(m) }

func prefix(r *rand.Rand, l core.Limit, n int) []limgen.Sample {
	var hist []limgen.Sample
	base := int64(1) << uint(4+r.IntN(24))
	mode := r.IntN(3)
	for i := 0; i < n; i++ {
		var s limgen.Sample
		switch mode {
		case 0:
			s = limgen.Hostile(r, l.EstimatedLimit(), limgen.Baseline(l), 0.2)
		case 1:
			s = limgen.Benign(r, l.EstimatedLimit(), base, 0.3) // drop-heavy: start low
		default:
			s = limgen.Benign(r, l.EstimatedLimit(), base, 0.02)
		}
		l.OnSample(0, s.RTT, s.InFlight, s.Drop)
		hist = append(hist, s)
	}
	return hist
}

func tail(h []limgen.Sample, n int) []limgen.Sample {
	if len(h) > n {
		return h[len(h)-n:]
	}
	return h
}

func appLimited(idx int64, r *rand.Rand) {
	kind := limgen.Kinds[r.IntN(4)]
	spec := limgen.Gen(r, kind, limgen.Opts{NoProbe: true})
	l := spec.New(nil, "c07")
	hist := prefix(r, l, r.IntN(150))
	for k := 0; k < 1+r.IntN(6); k++ {
		before := l.EstimatedLimit()
		s := limgen.Hostile(r, before, limgen.Baseline(l), 0)
		s.Drop = false
		lim := (before - 1) / 2 // largest inFlight with 2*inFlight < before
		if kind == "aimd" {
			lim = before - 1
		}
		if lim < 0 {
			continue
		}
		s.InFlight = lim
		if r.IntN(2) == 0 && lim > 0 {
			s.InFlight = r.IntN(lim + 1)
		}
		l.OnSample(0, s.RTT, s.InFlight, false)
		after := l.EstimatedLimit()
		hist = append(hist, s)
		rt.Count("app_limited_samples", 1)
		if s.InFlight == lim {
			rt.Count("app_limited_samples_at_the_edge", 1)
		}
		if after > before {
			rt.Violation("C07/"+kind+"/app-limited-sample-raised-estimate", idx, rt.J{"spec": spec, "before": before, "after": after,
				"sample": s, "history_tail": tail(hist, 20), "history_len": len(hist)})
			return
		}
	}
	rt.Distinct(fmt.Sprintf("app|%+v|%d|%v", spec, len(hist), hist[len(hist)-1:]))
}

func log10root(e int) int {
	if e < 10 {
		return 1
	}
	return int(math.Log10(float64(e)))
}

func recovery(idx int64, r *rand.Rand) {
	kind := limgen.Kinds[r.IntN(4)]
	spec := limgen.Gen(r, kind, limgen.Opts{Bounded: true})
	if kind == "gradient" && r.IntN(8) == 0 {
		spec.ProbeInt = limit.ProbeDisabled // no "next probe": the healthy run must climb and stay up however long it is
	}
	if kind == "gradient" && r.IntN(8) == 0 {
		// the default ceiling (1000 = the size of the pre-computed square-root table) with the default queue allowance,
		// started at or just below it: the healthy run sits exactly on the ceiling
		spec.Max, spec.QueueKind, spec.QueueArg = 1000, "sqrt", 4
		spec.Initial = 1000 - []int{0, 0, 1, 30}[r.IntN(4)]
		if spec.Min > spec.Initial {
			spec.Min = 1
		}
		if r.IntN(2) == 0 {
			spec.Smoothing = 1
		}
		rt.Count("gradient_recovery_runs_at_the_default_ceiling", 1)
	}
	if kind != "aimd" && r.IntN(4) == 0 {
		spec.Debug = true // a logger with debug enabled must not change what the algorithm does
		rt.Count("recovery_runs_with_a_debug_logger", 1)
	}
	if kind == "vegas" && r.IntN(5) == 0 {
		// a caller-supplied threshold that never calls for the aggressive step: the run grows by the default increase step
		spec.Funcs = []string{"threshold=0", "threshold=-1"}[r.IntN(2)]
		rt.Count("vegas_recovery_runs_with_a_caller_supplied_threshold", 1)
	}
	if kind == "vegas" && spec.Funcs == "" && r.IntN(6) == 0 {
		// a caller-supplied baseline measurement that keeps the latest value it was given: healthy samples at that value
		// grow the limit like any other
		spec.NoLoad = "single"
		rt.Count("vegas_recovery_runs_with_a_caller_supplied_baseline_measurement", 1)
	}
	incBy := spec.IncBy
	if kind == "aimd" && r.IntN(6) == 0 {
		spec.IncBy = []int{0, -1}[r.IntN(2)] // "give me the default" increment: 1
		incBy = 1
		rt.Count("aimd_recovery_runs_with_the_default_increment", 1)
	}
	l := spec.New(nil, "c07")
	hist := prefix(r, l, r.IntN(150))
	e0 := l.EstimatedLimit()
	viol := func(sig string, extra rt.J) {
		extra["spec"], extra["start_estimate"], extra["history_tail"], extra["history_len"] = spec, e0, tail(hist, 12), len(hist)
		rt.Violation("C07/"+kind+"/"+sig, idx, extra)
	}
	switch kind {
	case "aimd":
		for i := 0; i < 25; i++ {
			before := l.EstimatedLimit()
			s := limgen.Sample{RTT: 1 + r.Int64N(1e6), InFlight: before + r.IntN(3)}
			if r.IntN(3) == 0 {
				// AIMD is purely loss based: a slow success (seconds, minutes, up to 2^62 ns) is still a success
				s.RTT = int64(1) << uint(20+r.IntN(43))
				s.RTT += r.Int64N(s.RTT)
				rt.Count("aimd_healthy_samples_slower_than_a_millisecond", 1)
			}
			l.OnSample(0, s.RTT, s.InFlight, false)
			hist = append(hist, s)
			after := l.EstimatedLimit()
			rt.Count("healthy_samples", 1)
			if after != before+incBy {
				viol("saturated-sample-did-not-add-increment", rt.J{"before": before, "after": after, "sample": s})
				return
			}
		}
		rt.Count("recovered/aimd", 1)
	case "gradient":
		n := 2*spec.ProbeInt + 5
		if n > 400 {
			n = 400
		}
		if spec.ProbeInt == limit.ProbeDisabled {
			n = 2100 // longer than any default probe countdown
			rt.Count("gradient_recovery_runs_with_probing_disabled", 1)
		}
		q := spec.Queue()
		probes, reached := 0, false
		lastProbe := -1
		for i := 0; i < n; i++ {
			before := l.EstimatedLimit()
			rtt := limgen.Baseline(l)
			if rtt <= 0 {
				rtt = 1 + r.Int64N(1e6)
			} else if r.IntN(4) == 0 && rtt > 1 {
				rtt -= r.Int64N(rtt) // "does not exceed the baseline": sometimes below it
				if rtt < 1 {
					rtt = 1
				}
			}
			s := limgen.Sample{RTT: rtt, InFlight: before + r.IntN(3)}
			l.OnSample(0, s.RTT, s.InFlight, false)
			hist = append(hist, s)
			after := l.EstimatedLimit()
			rt.Count("healthy_samples", 1)
			if limgen.Baseline(l) == 0 && spec.ProbeInt == limit.ProbeDisabled && i > 0 {
				viol("healthy-run-collapsed-at-a-probe-although-probing-is-disabled", rt.J{"sample": i, "before": before, "after": after})
				return
			}
			if limgen.Baseline(l) == 0 { // probe: baseline reset, estimate dropped to the floor
				// a probe is only an excuse for not growing if it can be one: the countdown is at least one probe interval
				if lastProbe >= 0 && i-lastProbe < spec.ProbeInt {
					viol("healthy-run-pinned-by-probes-more-frequent-than-the-interval", rt.J{"sample": i, "previous_probe_at": lastProbe, "probe_interval": spec.ProbeInt, "estimate": after})
					return
				}
				lastProbe = i
				probes++
				if after < spec.Floor() || after > spec.Ceil() {
					viol("out-of-bounds-after-probe", rt.J{"estimate": after})
					return
				}
				continue
			}
			want := before + q(before)
			if want > spec.Max {
				want = spec.Max
			}
			if after < want {
				viol("healthy-sample-grew-less-than-queue-allowance", rt.J{"before": before, "after": after, "want_at_least": want, "sample": s})
				return
			}
			if after >= spec.Max-1 {
				reached = true
			}
		}
		rt.Count("gradient_probes_observed", int64(probes))
		if reached {
			rt.Count("recovered/gradient", 1)
		}
	case "vegas", "gradient2":
		ceil := spec.Max
		var B int
		s := spec.Smoothing
		if kind == "vegas" {
			step := 6.0 // +beta (>= 6) per healthy sample while there is no queue
			if spec.Funcs != "" {
				step = 1 // the default increase step (log10 of the limit, at least 1)
			}
			t1 := int(math.Ceil(math.Max(0, float64(ceil-e0)) / (step * s)))
			t2 := 1
			if s < 1 {
				t2 = int(math.Ceil(math.Log(float64(6*log10root(ceil)+1))/-math.Log(1-s))) + 1
			}
			B = 2*(t1+t2+3) + 4
		} else {
			f := 2 / float64(spec.LongWin+1)
			qmin := float64(spec.QueueArg)
			B = 3*(int(math.Ceil(math.Log(4*float64(ceil)/qmin)/f))+int(math.Ceil(float64(ceil)/(s*qmin)))) + 100
		}
		rtt := limgen.Baseline(l)
		if rtt <= 0 {
			rtt = 1 + r.Int64N(1<<uint(1+r.IntN(30)))
		}
		used, lastRise := 0, 0
		for used = 0; used < B; used++ {
			before := l.EstimatedLimit()
			if before >= ceil-1 {
				break
			}
			sm := limgen.Sample{RTT: rtt, InFlight: before + r.IntN(3)}
			l.OnSample(0, sm.RTT, sm.InFlight, false)
			hist = append(hist, sm)
			rt.Count("healthy_samples", 1)
			after := l.EstimatedLimit()
			if after > before {
				lastRise = used
			}
			if after < spec.LowerBound() || after > spec.Ceil() {
				viol("out-of-bounds-during-recovery", rt.J{"estimate": after})
				return
			}
		}
		final := l.EstimatedLimit()
		if final < ceil-1 {
			if lastRise >= used-used/4 && lastRise > 0 {
				rt.Inconclusive("C07 " + kind + " still rising at the sample cap")
				return
			}
			viol("stuck-below-ceiling", rt.J{"estimate": final, "ceiling": ceil, "healthy_samples": used, "bound": B, "last_rise_at": lastRise, "rtt": rtt})
			return
		}
		rt.Count("recovered/"+kind, 1)
		rt.Max("max:samples_to_ceiling/"+kind, int64(used))
		if rt.WantSample() && idx%53 == 1 && e0 < ceil-1 {
			rt.Sample(rt.J{"mode": "recovery", "spec": spec, "prefix_len": len(hist) - used, "start_estimate": e0, "ceiling": ceil,
				"healthy_samples_used": used, "bound": B, "rtt": rtt})
		}
	}
	if e0 < spec.Ceil()-1 || kind == "aimd" {
		rt.Distinct(fmt.Sprintf("rec|%+v|%d|%d", spec, e0, len(hist)))
	}
}

// concurrentSaturated: N saturated non-drop samples with in-flight == limit delivered to one AIMD limit at the same
// moment.  Whatever the order, only the first can find in-flight >= limit: the result is exactly one increment.
func concurrentSaturated(idx int64, r *rand.Rand) {
	for round := 0; round < 8; round++ {
		l0 := 1 + r.IntN(500)
		inc := 1 + r.IntN(4)
		l := limit.NewAIMDLimit("c07", l0, 0.9, inc, nil)
		n := 2 + r.IntN(7)
		bar := lin.NewBarrier(n)
		var wg sync.WaitGroup
		for g := 0; g < n; g++ {
			wg.Add(1)
			go func() {
				defer wg.Done()
				bar.Wait()
				l.OnSample(0, 1000, l0, false)
			}()
		}
		wg.Wait()
		rt.Count("concurrent_saturated_rounds", 1)
		if got := l.EstimatedLimit(); got != l0+inc {
			rt.Violation("C07/aimd/sample-below-the-limit-raised-estimate/concurrent", idx, rt.J{"start": l0, "increment": inc, "samples_with_inflight_equal_start": n, "final": got, "want": l0 + inc})
			return
		}
		rt.Distinct(fmt.Sprintf("conc|%d|%d|%d", l0, inc, n))
	}
}

// concurrentHealthy: M identical healthy saturated samples (RTT = the baseline, huge in-flight, no drop) reach one
// limit from several goroutines while another goroutine polls EstimatedLimit().  Every delivered sample counts: the
// result equals what a twin reaches when it is handed the same M samples one after the other.
func concurrentHealthy(idx int64, r *rand.Rand) {
	kind := []string{"vegas", "gradient", "gradient2"}[r.IntN(3)]
	spec := limgen.Gen(r, kind, limgen.Opts{Bounded: true})
	switch kind {
	case "vegas":
		spec.ProbeMult = 100 // no probe within the few samples of this case (a probe needs at least 50 x estimate samples)
	case "gradient":
		spec.ProbeInt = limit.ProbeDisabled
	}
	a, b := spec.New(nil, "c07"), spec.New(nil, "c07")
	const rtt = 1 << 20
	for _, l := range []core.Limit{a, b} {
		l.OnSample(0, rtt, 1<<20, false) // establishes the baseline
	}
	n := 2 + r.IntN(6)
	per := 1 + r.IntN(5)
	for i := 0; i < n*per; i++ {
		a.OnSample(0, rtt, 1<<20, false)
	}
	stop := make(chan struct{})
	var pw sync.WaitGroup
	pw.Add(1)
	go func() {
		defer pw.Done()
		for {
			select {
			case <-stop:
				return
			default:
				_ = b.EstimatedLimit()
			}
		}
	}()
	bar := lin.NewBarrier(n)
	var wg sync.WaitGroup
	for g := 0; g < n; g++ {
		wg.Add(1)
		go func() {
			defer wg.Done()
			bar.Wait()
			for i := 0; i < per; i++ {
				b.OnSample(0, rtt, 1<<20, false)
			}
		}()
	}
	wg.Wait()
	close(stop)
	pw.Wait()
	rt.Count("concurrent_healthy_rounds", 1)
	if ea, eb := a.EstimatedLimit(), b.EstimatedLimit(); ea != eb {
		rt.Violation("C07/"+kind+"/healthy-samples-delivered-concurrently-did-not-all-count", idx, rt.J{"spec": spec, "goroutines": n, "samples_each": per,
			"estimate_after_sequential_delivery": ea, "estimate_after_concurrent_delivery": eb})
		return
	}
	rt.Distinct(fmt.Sprintf("chealthy|%+v|%d|%d", spec, n, per))
}

// exactSteps: fresh limits with smoothing exactly 1 (a legal value: "no smoothing") and a fixed queue allowance q, fed
// healthy saturated samples from the first one on.  Gradient2 at a constant RTT and Gradient at any RTT not above its
// baseline - 0 ns included, the smallest RTT there is - grow by exactly q per sample until the ceiling.
func exactSteps(idx int64, r *rand.Rand) {
	kind := []string{"gradient", "gradient2"}[r.IntN(2)]
	spec := limgen.Gen(r, kind, limgen.Opts{Bounded: true})
	spec.Smoothing, spec.QueueKind, spec.QueueArg = 1, "fixed", 2+r.IntN(5)
	if spec.QueueArg > spec.Max {
		spec.QueueArg = spec.Max
	}
	if spec.Initial > spec.Max {
		spec.Initial = spec.Max
	}
	spec.ProbeInt = limit.ProbeDisabled
	l := spec.New(nil, "c07")
	rtt := 1 + r.Int64N(1<<uint(1+r.IntN(30)))
	zero := kind == "gradient" && r.IntN(3) == 0
	if zero {
		rtt = 0
		rt.Count("gradient_exact_step_runs_at_rtt_zero", 1)
	}
	for i := 0; i < 40; i++ {
		before := l.EstimatedLimit()
		l.OnSample(0, rtt, before+r.IntN(3), false)
		after := l.EstimatedLimit()
		rt.Count("exact_step_samples", 1)
		want := before + spec.QueueArg
		if want > spec.Max {
			want = spec.Max
		}
		if want < before {
			want = before
		}
		// Gradient2's long-term average of a constant can sit one ulp below the constant, which costs a fraction of a unit
		ok := after == want
		if kind == "gradient2" && want > before && (after == want-1 || after == want) {
			ok = true
		}
		if !ok {
			rt.Violation("C07/"+kind+"/healthy-sample-did-not-add-the-queue-allowance/no-smoothing", idx, rt.J{"spec": spec, "sample": i, "rtt": rtt, "before": before, "after": after, "want": want})
			return
		}
	}
	rt.Distinct(fmt.Sprintf("exact|%+v|%d", spec, rtt))
}

func TestCheck(t *testing.T) {
	if limgen.LargeTables() {
		rt.Count("shards_started_with_enlarged_lookup_tables", 1)
	}
	rt.Cases(15000, 3000000, func(idx int64) {
		r := rt.CaseRand(7, idx)
		rt.Case()
		switch {
		case idx%20 == 19:
			concurrentHealthy(idx, r)
		case idx%10 == 9:
			concurrentSaturated(idx, r)
		case idx%20 == 7:
			exactSteps(idx, r)
		case idx%2 == 0:
			appLimited(idx, r)
		default:
			recovery(idx, r)
		}
	})
}
