// C08 — the update is monotone in the observed RTT (relational, two-run monitor).
// Twin instances are built under the same math/rand seed (so their probe jitter is identical), fed the same
// prefix, then a final sample that differs only in the RTT.
package c08

import (
	"fmt"
	mrand "math/rand"
	"math/rand/v2"
	"testing"

	"github.com/platinummonkey/go-concurrency-limits/core"

	"verifharness/internal/limgen"
	"verifharness/internal/rt"
)

func TestMain(m *testing.M) { rt.Main(m) }

var kinds = []string{"vegas", "gradient", "gradient2"}

func genPrefix(r *rand.Rand, n int) []limgen.Sample {
	base := int64(1) << uint(4+r.IntN(24))
	out := make([]limgen.Sample, 0, n)
	est := 1 + r.IntN(300)
	for i := 0; i < n; i++ {
		var s limgen.Sample
		if r.IntN(6) == 0 {
			s = limgen.Hostile(r, est, base, 0.1)
			if s.RTT > 1<<40 {
				s.RTT = 1 << 40
			}
		} else {
			s = limgen.Benign(r, est, base, 0.05)
		}
		out = append(out, s)
	}
	return out
}

func TestCheck(t *testing.T) {
	rt.Cases(40000, 4000000, func(idx int64) {
		r := rt.CaseRand(8, idx)
		rt.Case()
		kind := kinds[r.IntN(3)]
		spec := limgen.Gen(r, kind, limgen.Opts{NoProbe: true})
		spec.Debug = r.IntN(5) == 0 // a debug-enabled logger must not change behaviour
		if kind != "aimd" && r.IntN(12) == 0 {
			spec.Smoothing = []float64{1.5, 2.5, -1, 1.0000001}[r.IntN(4)] // out of range: the constructors fall back to their documented default
			rt.Count("cases_with_out_of_range_smoothing", 1)
		}
		pre := genPrefix(r, r.IntN(120))
		class := r.IntN(24) // 0-2: estimate exactly at its maximum, 3-4: estimate above its maximum, else: PRNG history
		aboveMax := class == 3 || class == 4
		if aboveMax {
			// built with initial > max (accepted by the constructors) and still above the maximum: a short history of
			// app-limited samples leaves the estimate where it started
			spec.Initial = spec.Max + 1 + r.IntN(60)
			b0 := int64(1) << uint(4+r.IntN(24))
			pre = []limgen.Sample{{RTT: b0, InFlight: spec.Initial}}[:r.IntN(2)]
			for i := r.IntN(3); i > 0; i-- {
				pre = append(pre, limgen.Sample{RTT: b0 + r.Int64N(b0), InFlight: 0})
			}
			rt.Count("pairs_from_an_estimate_above_its_maximum", 1)
		}
		atMax := class < 3
		if atMax {
			// an estimate sitting exactly at its maximum (initial == max, history of app-limited samples that leave it alone):
			// the clamp makes "grow" a no-op there, which must not come out lower than the no-op of a slower sample
			spec.Initial = spec.Max
			if kind == "vegas" && r.IntN(2) == 0 {
				spec.Max = 2 + r.IntN(40)
				spec.Initial = spec.Max
			}
			b0 := int64(1) << uint(4+r.IntN(24))
			pre = []limgen.Sample{{RTT: b0, InFlight: spec.Initial}}
			for i := r.IntN(4); i > 0; i-- {
				pre = append(pre, limgen.Sample{RTT: b0 + r.Int64N(b0), InFlight: 0})
			}
			rt.Count("pairs_from_an_estimate_exactly_at_its_maximum", 1)
		}
		grown := class == 5 || class == 6
		if grown {
			// an estimate that has just grown into its maximum: started a few steps below it, then a healthy saturated run
			if kind == "vegas" && r.IntN(2) == 0 {
				spec.Max = 5 + r.IntN(60)
			}
			spec.Initial = spec.Max - r.IntN(7)
			if spec.Initial < 1 {
				spec.Initial = 1
			}
			b0 := int64(1) << uint(4+r.IntN(24))
			pre = []limgen.Sample{{RTT: b0, InFlight: spec.Max}}
			for i := 1 + r.IntN(8); i > 0; i-- {
				pre = append(pre, limgen.Sample{RTT: b0, InFlight: spec.Max + 1})
			}
			rt.Count("pairs_from_an_estimate_grown_into_its_maximum", 1)
		}
		halfBand := class == 7 && kind == "gradient2"
		var bandRTT int64
		if halfBand {
			// Gradient2 after a constant-RTT run and one slower sample (a fractional estimate), the final pair taken with an
			// in-flight count right at half the estimate: the faster sample must not be held back where the slower one grows
			spec.Smoothing = []float64{1, 0.5, 0.75}[r.IntN(3)]
			spec.QueueKind, spec.QueueArg = "fixed", 3+r.IntN(6)
			spec.Min = 1
			spec.Initial = spec.QueueArg + r.IntN(30)
			spec.Max = spec.Initial + 50 + r.IntN(200)
			bandRTT = int64(1) << uint(10+r.IntN(20))
			pre = nil
			for i := 2 + r.IntN(4); i > 0; i-- {
				pre = append(pre, limgen.Sample{RTT: bandRTT, InFlight: 1 << 20})
			}
			pre = append(pre, limgen.Sample{RTT: bandRTT + bandRTT*int64(2+r.IntN(8))/10, InFlight: 1 << 20})
			rt.Count("gradient2_pairs_with_inflight_at_half_the_estimate", 1)
		}
		seed := int64(r.Uint64() >> 1)
		build := func() core.Limit {
			mrand.Seed(seed)
			l := spec.New(nil, "c08")
			for _, s := range pre {
				l.OnSample(0, s.RTT, s.InFlight, s.Drop)
			}
			return l
		}
		a, b := build(), build()
		if a.EstimatedLimit() != b.EstimatedLimit() || limgen.Baseline(a) != limgen.Baseline(b) {
			rt.Inconclusive("C08 twins diverged before the final sample (math/rand seeding ineffective?)")
			return
		}
		before := a.EstimatedLimit()
		base := limgen.Baseline(a)
		if kind != "gradient2" && base <= 0 {
			rt.Count("skipped_baseline_unset", 1)
			return
		}
		if base < 1 {
			base = 1
		}
		// rtt_lo >= baseline, rtt_hi > rtt_lo with relative gap >= 1e-6, both <= 2^40 (DESIGN 6 C08)
		lo := base
		switch r.IntN(4) {
		case 0:
		case 1:
			lo = base + r.Int64N(base+1)
		case 2:
			lo = base + r.Int64N(base/8+2)
		default:
			lo = base * int64(1+r.IntN(6))
		}
		if kind == "gradient2" {
			lo = 1 + r.Int64N(1<<uint(1+r.IntN(34)))
		}
		gap := lo/1000000 + 1
		var hi int64
		switch r.IntN(4) {
		case 0:
			hi = lo + gap
		case 1:
			hi = lo + gap + r.Int64N(lo/4+2)
		case 2:
			hi = lo * 2
		default:
			hi = lo + gap + r.Int64N(4*lo+2)
		}
		if hi > 1<<41 || lo > 1<<40 {
			rt.Count("skipped_rtt_too_large", 1)
			return
		}
		if atMax {
			lo = base
			hi = lo + lo*int64(1+r.IntN(40))/8
		}
		if grown {
			lo = base + base*int64(r.IntN(16))/100
			hi = lo + gap + base*int64(5+r.IntN(60))/100
		}
		if aboveMax && kind == "gradient2" {
			hi = lo + gap + r.Int64N(8*lo+2)
		}
		inflight := before
		switch r.IntN(4) {
		case 0:
			inflight = before/2 + r.IntN(before/2+2)
		case 1:
			inflight = r.IntN(2*before + 2)
		case 2:
			inflight = before + r.IntN(20)
		}
		drop := r.IntN(8) == 0
		if halfBand {
			// the long-term RTT is still the arithmetic mean of what was seen (warm-up): rtt_hi lies a few percent above it
			var sum int64
			for _, p := range pre {
				sum += p.RTT
			}
			mean := sum / int64(len(pre))
			lo, hi = bandRTT, mean+mean*int64(1+r.IntN(4))/100
			inflight, drop = before/2+1+r.IntN(2), false
		}
		a.OnSample(0, lo, inflight, drop)
		b.OnSample(0, hi, inflight, drop)
		ea, eb := a.EstimatedLimit(), b.EstimatedLimit()
		rt.Count("pairs", 1)
		if eb > ea {
			class := "estimate-in-range"
			if before > spec.Max && spec.Initial > spec.Max {
				class = "estimate-above-max" // the state a limit built with initial > max starts in
			}
			rt.Violation("C08/"+kind+"/higher-rtt-gave-higher-estimate/"+class, idx, rt.J{"spec": spec, "prefix_len": len(pre), "math_rand_seed": seed,
				"estimate_before": before, "baseline": base, "rtt_lo": lo, "rtt_hi": hi, "inflight": inflight, "drop": drop,
				"estimate_after_lo": ea, "estimate_after_hi": eb, "prefix_tail": tailS(pre, 10)})
			return
		}
		if eb < ea {
			rt.Count("pairs_strictly_ordered", 1)
		}
		if ea != before || eb != before {
			rt.Count("pairs_where_estimate_moved", 1)
			rt.Distinct(fmt.Sprintf("%+v|%d|%d|%d|%d|%v", spec, len(pre), lo, hi, inflight, drop))
		}
		if rt.WantSample() && idx%211 == 3 && eb < ea {
			rt.Sample(rt.J{"spec": spec, "prefix_len": len(pre), "estimate_before": before, "baseline": base, "rtt_lo": lo, "rtt_hi": hi,
				"inflight": inflight, "drop": drop, "estimate_after_lo": ea, "estimate_after_hi": eb})
		}
	})
}

func tailS(h []limgen.Sample, n int) []limgen.Sample {
	if len(h) > n {
		return h[len(h)-n:]
	}
	return h
}
