package c03

import (
	"fmt"
	"math/rand/v2"
	"runtime"
	"sync"
	"time"

	"github.com/anishathalye/porcupine"
	"github.com/platinummonkey/go-concurrency-limits/core"

	"verifharness/internal/lin"
	"verifharness/internal/rt"
)

type cin struct {
	Op  string // acq | rel | set
	Bin int    // index into bins (len(parts) = unknown bucket, -1 = unmatched)
	V   int
	Key string
}

type cst struct {
	Limit, Busy int
	Bins        [8]int
}

func concurrent(idx int64, r *rand.Rand) {
	e, desc := build(r)
	// bins: index of model partition; unknown bucket = len(parts)
	binOf := func(key string) int {
		p := e.route(key)
		if p == nil {
			return -1
		}
		if p == e.m.Unknown {
			return len(e.m.Parts)
		}
		for i, q := range e.m.Parts {
			if q == p {
				return i
			}
		}
		panic("route")
	}
	parts := append([]*part(nil), e.m.Parts...)
	if e.m.Unknown != nil {
		parts = append(parts, e.m.Unknown)
	}
	share := func(limit, bin int) int { return shareExact(limit, parts[bin]) }
	limit0 := e.m.Limit
	pm := porcupine.Model{
		Init: func() any { return cst{Limit: limit0} },
		Step: func(state, in, out any) (bool, any) {
			s, c := state.(cst), in.(cin)
			switch c.Op {
			case "acq":
				ok := out.(bool)
				if c.Bin < 0 {
					return !ok, s
				}
				adm := s.Busy < s.Limit || s.Bins[c.Bin] < share(s.Limit, c.Bin)
				if ok != adm {
					return false, s
				}
				if ok {
					s.Busy++
					s.Bins[c.Bin]++
				}
				return true, s
			case "rel":
				s.Busy--
				s.Bins[c.Bin]--
				return true, s
			default:
				s.Limit = max1(c.V)
				return true, s
			}
		},
		DescribeOperation: func(in, out any) string { return fmt.Sprintf("%+v -> %v", in, out) },
	}
	nG := 2 + r.IntN(5)
	perG := 3 + r.IntN(6)
	// pre-draw every goroutine's script from the case PRNG (goroutines must not share it)
	type step struct {
		acq  bool
		key  string
		set  int
		spin int
	}
	scripts := make([][]step, nG)
	setter := r.IntN(2) == 0
	for g := range scripts {
		for k := 0; k < perG; k++ {
			st := step{acq: r.IntN(5) < 3, key: allKeys[r.IntN(len(allKeys))], set: -1, spin: r.IntN(3)}
			if setter && g == 0 && r.IntN(3) == 0 {
				v := 1 + r.IntN(12)
				if !e.m.ambiguous(v) {
					st.set = v
				}
			}
			scripts[g] = append(scripts[g], st)
		}
	}
	// small limit: contention
	small := 1 + r.IntN(6)
	if !e.m.ambiguous(small) {
		e.s().SetLimit(small)
		limit0 = small
	}
	h := &lin.History{}
	bar := lin.NewBarrier(nG)
	var wg sync.WaitGroup
	for g := 0; g < nG; g++ {
		wg.Add(1)
		go func(g int) {
			defer wg.Done()
			var mine []held
			var bins []int
			bar.Wait()
			for _, st := range scripts[g] {
				for i := 0; i < st.spin; i++ {
					runtime.Gosched()
				}
				switch {
				case st.set > 0:
					h.Do(g, cin{Op: "set", V: st.set}, func() any { e.s().SetLimit(st.set); return nil })
				case st.acq || len(mine) == 0:
					b := binOf(st.key)
					var tok core.StrategyToken
					ok := h.Do(g, cin{Op: "acq", Bin: b, Key: st.key}, func() any {
						var ok bool
						tok, ok = e.s().TryAcquire(ctxKey(st.key))
						return ok
					}).(bool)
					if ok {
						mine = append(mine, held{tok: tok})
						bins = append(bins, b)
					}
				default:
					k := len(mine) - 1
					h.Do(g, cin{Op: "rel", Bin: bins[k]}, func() any { mine[k].tok.Release(); return nil })
					mine, bins = mine[:k], bins[:k]
				}
			}
			for k := len(mine) - 1; k >= 0; k-- {
				h.Do(g, cin{Op: "rel", Bin: bins[k]}, func() any { mine[k].tok.Release(); return nil })
			}
		}(g)
	}
	wg.Wait()
	ops := h.Ops()
	ov := lin.Overlaps(ops)
	rt.Count("concurrent_histories", 1)
	rt.Count("concurrent_operations", int64(len(ops)))
	rt.Count("overlapping_operation_pairs", int64(ov))
	res, info := lin.Check(pm, ops, 10*time.Second)
	switch res {
	case porcupine.Illegal:
		var lines []string
		for _, o := range ops {
			lines = append(lines, fmt.Sprintf("client %d [%d,%d] %+v -> %v", o.ClientId, o.Call, o.Return, o.Input, o.Output))
		}
		_ = info
		rt.Violation("C03/"+e.kind+"/concurrent-history-not-linearizable", idx, rt.J{"config": desc, "initial_limit": limit0, "history": lines})
		return
	case porcupine.Unknown:
		rt.Inconclusive("C03 porcupine timeout")
		return
	}
	rt.Count("histories_linearizable", 1)
	// quiescence: everything released
	if b := e.s().BusyCount(); b != 0 {
		rt.Violation("C03/"+e.kind+"/busy-nonzero-at-quiescence", idx, rt.J{"config": desc, "busy": b})
		return
	}
	for p, lp := range e.lparts {
		if lp.BusyCount() != 0 {
			rt.Violation("C03/"+e.kind+"/bin-nonzero-at-quiescence", idx, rt.J{"config": desc, "partition": p.Name, "busy": lp.BusyCount()})
			return
		}
	}
	for p, pp := range e.pparts {
		if pp.BusyCount() != 0 {
			rt.Violation("C03/"+e.kind+"/bin-nonzero-at-quiescence", idx, rt.J{"config": desc, "partition": p.Name, "busy": pp.BusyCount()})
			return
		}
	}
	if ov > 0 {
		rt.Distinct(fmt.Sprintf("conc|%v|%d|%d|%d", desc, nG, len(ops), ov))
	}
	if rt.WantSample() && idx%85 == 16 {
		var lines []string
		for _, o := range ops[:min(len(ops), 10)] {
			lines = append(lines, fmt.Sprintf("client %d [%d,%d] %+v -> %v", o.ClientId, o.Call, o.Return, o.Input, o.Output))
		}
		rt.Sample(rt.J{"mode": "concurrent", "config": desc, "goroutines": nG, "history_head": lines, "overlapping_pairs": ov})
	}
}
