package c03

import (
	"context"
	"fmt"
	"math/rand/v2"
	"runtime"
	"sync"
	"sync/atomic"
	"time"

	"github.com/anishathalye/porcupine"
	"github.com/platinummonkey/go-concurrency-limits/core"
	"github.com/platinummonkey/go-concurrency-limits/strategy"

	"verifharness/internal/lin"
	"verifharness/internal/rt"
)

type cin struct {
	Op  string // acq | rel | set
	Bin int    // index into bins (len(parts) = unknown bucket, -1 = unmatched)
	V   int
	Key string
}

type cst struct {
	Limit, Busy int
	Bins        [8]int
}

func concurrent(idx int64, r *rand.Rand) {
	e, desc := build(r)
	// bins: index of model partition; unknown bucket = len(parts)
	binOf := func(key string) int {
		p := e.route(key)
		if p == nil {
			return -1
		}
		if p == e.m.Unknown {
			return len(e.m.Parts)
		}
		for i, q := range e.m.Parts {
			if q == p {
				return i
			}
		}
		panic("route")
	}
	parts := append([]*part(nil), e.m.Parts...)
	if e.m.Unknown != nil {
		parts = append(parts, e.m.Unknown)
	}
	share := func(limit, bin int) int { return shareExact(limit, parts[bin]) }
	limit0 := e.m.Limit
	pm := porcupine.Model{
		Init: func() any { return cst{Limit: limit0} },
		Step: func(state, in, out any) (bool, any) {
			s, c := state.(cst), in.(cin)
			switch c.Op {
			case "acq":
				ok := out.(bool)
				if c.Bin < 0 {
					return !ok, s
				}
				adm := s.Busy < s.Limit || s.Bins[c.Bin] < share(s.Limit, c.Bin)
				if ok != adm {
					return false, s
				}
				if ok {
					s.Busy++
					s.Bins[c.Bin]++
				}
				return true, s
			case "rel":
				s.Busy--
				s.Bins[c.Bin]--
				return true, s
			default:
				s.Limit = max1(c.V)
				return true, s
			}
		},
		DescribeOperation: func(in, out any) string { return fmt.Sprintf("%+v -> %v", in, out) },
	}
	nG := 2 + r.IntN(5)
	perG := 3 + r.IntN(6)
	// pre-draw every goroutine's script from the case PRNG (goroutines must not share it)
	type step struct {
		acq  bool
		key  string
		set  int
		spin int
	}
	scripts := make([][]step, nG)
	setter := r.IntN(2) == 0
	for g := range scripts {
		for k := 0; k < perG; k++ {
			st := step{acq: r.IntN(5) < 3, key: allKeys[r.IntN(len(allKeys))], set: -1, spin: r.IntN(3)}
			if setter && g == 0 && r.IntN(3) == 0 {
				v := 1 + r.IntN(12)
				if !e.m.ambiguous(v) {
					st.set = v
				}
			}
			scripts[g] = append(scripts[g], st)
		}
	}
	// small limit: contention
	small := 1 + r.IntN(6)
	if !e.m.ambiguous(small) {
		e.s().SetLimit(small)
		limit0 = small
	}
	h := &lin.History{}
	bar := lin.NewBarrier(nG)
	var wg sync.WaitGroup
	for g := 0; g < nG; g++ {
		wg.Add(1)
		go func(g int) {
			defer wg.Done()
			var mine []held
			var bins []int
			bar.Wait()
			for _, st := range scripts[g] {
				for i := 0; i < st.spin; i++ {
					runtime.Gosched()
				}
				switch {
				case st.set > 0:
					h.Do(g, cin{Op: "set", V: st.set}, func() any { e.s().SetLimit(st.set); return nil })
				case st.acq || len(mine) == 0:
					b := binOf(st.key)
					var tok core.StrategyToken
					ok := h.Do(g, cin{Op: "acq", Bin: b, Key: st.key}, func() any {
						var ok bool
						tok, ok = e.s().TryAcquire(ctxKey(st.key))
						return ok
					}).(bool)
					if ok {
						mine = append(mine, held{tok: tok})
						bins = append(bins, b)
					}
				default:
					k := len(mine) - 1
					h.Do(g, cin{Op: "rel", Bin: bins[k]}, func() any { mine[k].tok.Release(); return nil })
					mine, bins = mine[:k], bins[:k]
				}
			}
			for k := len(mine) - 1; k >= 0; k-- {
				h.Do(g, cin{Op: "rel", Bin: bins[k]}, func() any { mine[k].tok.Release(); return nil })
			}
		}(g)
	}
	wg.Wait()
	ops := h.Ops()
	ov := lin.Overlaps(ops)
	rt.Count("concurrent_histories", 1)
	rt.Count("concurrent_operations", int64(len(ops)))
	rt.Count("overlapping_operation_pairs", int64(ov))
	res, info := lin.Check(pm, ops, 10*time.Second)
	switch res {
	case porcupine.Illegal:
		var lines []string
		for _, o := range ops {
			lines = append(lines, fmt.Sprintf("client %d [%d,%d] %+v -> %v", o.ClientId, o.Call, o.Return, o.Input, o.Output))
		}
		_ = info
		rt.Violation("C03/"+e.kind+"/concurrent-history-not-linearizable", idx, rt.J{"config": desc, "initial_limit": limit0, "history": lines})
		return
	case porcupine.Unknown:
		rt.Inconclusive("C03 porcupine timeout")
		return
	}
	rt.Count("histories_linearizable", 1)
	// quiescence: everything released
	if b := e.s().BusyCount(); b != 0 {
		rt.Violation("C03/"+e.kind+"/busy-nonzero-at-quiescence", idx, rt.J{"config": desc, "busy": b})
		return
	}
	for p, lp := range e.lparts {
		if lp.BusyCount() != 0 {
			rt.Violation("C03/"+e.kind+"/bin-nonzero-at-quiescence", idx, rt.J{"config": desc, "partition": p.Name, "busy": lp.BusyCount()})
			return
		}
	}
	for p, pp := range e.pparts {
		if pp.BusyCount() != 0 {
			rt.Violation("C03/"+e.kind+"/bin-nonzero-at-quiescence", idx, rt.J{"config": desc, "partition": p.Name, "busy": pp.BusyCount()})
			return
		}
	}
	if ov > 0 {
		rt.Distinct(fmt.Sprintf("conc|%v|%d|%d|%d", desc, nG, len(ops), ov))
	}
	if rt.WantSample() && idx%85 == 16 {
		var lines []string
		for _, o := range ops[:min(len(ops), 10)] {
			lines = append(lines, fmt.Sprintf("client %d [%d,%d] %+v -> %v", o.ClientId, o.Call, o.Return, o.Input, o.Output))
		}
		rt.Sample(rt.J{"mode": "concurrent", "config": desc, "goroutines": nG, "history_head": lines, "overlapping_pairs": ov})
	}
}

// storm: concurrent limit changes (several setters) and dynamic partition additions racing with a limit change.
// At quiescence every bin's share must be the share of the limit now in force - a SetLimit / AddPartition that
// is not atomic with respect to the others leaves a bin on a superseded limit.
func storm(idx int64, r *rand.Rand) {
	e, desc := build(r)
	check := func(when string, extra *part) bool {
		lim := e.s().Limit()
		for _, p := range e.m.Parts {
			if p.Removed {
				continue
			}
			var got int
			if e.kind == "lookup" {
				got = e.lparts[p].Limit()
			} else {
				got = e.pparts[p].Limit()
			}
			if want := shareExact(lim, p); got != want {
				rt.Violation("C03/"+e.kind+"/bin-share-stale-after-concurrent-"+when, idx, rt.J{"config": desc, "partition": p.Name, "share": got,
					"want": want, "limit_in_force": lim, "fraction": fmt.Sprintf("%d/%d", p.Num, p.Den)})
				return false
			}
		}
		rt.Count("storm_quiescent_share_checks", 1)
		return true
	}
	pick := func(lr *rand.Rand) int {
		for {
			v := 1 + lr.IntN(60)
			if !e.m.ambiguous(v) {
				return v
			}
		}
	}
	// (1) several concurrent setters
	nG := 2 + r.IntN(4)
	seeds := make([]uint64, nG)
	for i := range seeds {
		seeds[i] = r.Uint64()
	}
	for round := 0; round < 20; round++ {
		bar := lin.NewBarrier(nG)
		var wg sync.WaitGroup
		for g := 0; g < nG; g++ {
			wg.Add(1)
			go func(g int) {
				defer wg.Done()
				lr := rand.New(rand.NewPCG(seeds[g], uint64(round)))
				bar.Wait()
				for i := 0; i < 6; i++ {
					e.s().SetLimit(pick(lr))
				}
			}(g)
		}
		wg.Wait()
		if !check("SetLimit-calls", nil) {
			return
		}
	}
	// (2) AddPartition racing with a limit change
	den := 100
	used := 0
	for _, p := range e.m.Parts {
		den = p.Den
		used += p.Num
	}
	room := den - used
	if den == 100 {
		room--
	}
	if room < 1 {
		rt.Count("storm_cases", 1)
		return
	}
	lr := rand.New(rand.NewPCG(seeds[0], 99))
	for round := 0; round < 120; round++ {
		np := &part{Name: "zz", Num: 1 + lr.IntN(room), Den: den}
		cur := e.s().Limit()
		next := pick(lr)
		for next == cur || shareExact(next, np) != shareFloat(next, np) || shareExact(cur, np) != shareFloat(cur, np) {
			next = pick(lr)
			np.Num = 1 + lr.IntN(room)
		}
		bar := lin.NewBarrier(2)
		var wg sync.WaitGroup
		wg.Add(2)
		if e.kind == "lookup" {
			lp := strategy.NewLookupPartitionWithMetricRegistry("zz", np.frac(), 1, core.EmptyMetricRegistryInstance)
			e.lparts[np] = lp
			go func() { defer wg.Done(); bar.Wait(); e.look.AddPartition("zz", lp) }()
		} else {
			pp := strategy.NewPredicatePartitionWithMetricRegistry("zz", np.frac(), func(context.Context) bool { return false }, core.EmptyMetricRegistryInstance)
			e.pparts[np] = pp
			go func() { defer wg.Done(); bar.Wait(); e.pred.AddPartition(pp) }()
		}
		go func() { defer wg.Done(); bar.Wait(); e.s().SetLimit(next) }()
		wg.Wait()
		e.m.Parts = append(e.m.Parts, np)
		ok := check("AddPartition-and-SetLimit", np)
		// remove it again
		if e.kind == "lookup" {
			e.look.RemovePartition("zz")
			delete(e.lparts, np)
		} else {
			// predicate partitions are removed by a matching context; "zz" never matches, so rebuild the list without it
			e.pred.RemovePartitionsMatching(ctxKey("__none__"))
			delete(e.pparts, np)
		}
		e.m.Parts = e.m.Parts[:len(e.m.Parts)-1]
		if e.kind == "predicate" {
			// no by-name removal for predicates: start a fresh strategy every round instead
			e2, d2 := build(lr)
			for e2.kind != "predicate" {
				e2, d2 = build(lr)
			}
			e, desc = e2, d2
			den, used = 100, 0
			for _, p := range e.m.Parts {
				den = p.Den
				used += p.Num
			}
			room = den - used
			if den == 100 {
				room--
			}
			if room < 1 {
				break
			}
		}
		if !ok {
			return
		}
		rt.Count("storm_add_vs_setlimit_rounds", 1)
	}
	rt.Count("storm_cases", 1)
	rt.Distinct(fmt.Sprintf("storm|%v|%d", desc, seeds[0]))
	addVsRemove(idx, lr)
	acquireVsRemove(idx, lr)
	sharedBackingArray(idx, lr)
	movedAndHomonymousPartitions(idx, lr)
}

// movedAndHomonymousPartitions: (a) a predicate partition that admitted requests in one strategy is removed (the removal
// hands the object back) and added to another strategy: from then on its requests are charged to, and given back to, the
// strategy it is registered with - afterwards both totals are zero and the new strategy lends its full limit.
// (b) partitions are distinct objects even when they carry the same name (the name is a metric tag): adding a second
// partition with a name already in use succeeds and its requests are admitted.
func movedAndHomonymousPartitions(idx int64, lr *rand.Rand) {
	mk := func(name, key string, pct float64) *strategy.PredicatePartition {
		return strategy.NewPredicatePartitionWithMetricRegistry(name, pct, func(ctx context.Context) bool { return keyOf(ctx) == key }, core.EmptyMetricRegistryInstance)
	}
	L := 4 + lr.IntN(8)
	s1, err1 := strategy.NewPredicatePartitionStrategyWithMetricRegistry([]*strategy.PredicatePartition{mk("a", "a", 0.25), mk("b", "b", 0.25)}, int32(L), core.EmptyMetricRegistryInstance)
	s2, err2 := strategy.NewPredicatePartitionStrategyWithMetricRegistry([]*strategy.PredicatePartition{mk("c", "c", 0.25)}, int32(L), core.EmptyMetricRegistryInstance)
	if err1 != nil || err2 != nil {
		panic("c03 movedAndHomonymousPartitions: constructor refused")
	}
	for i := 0; i < 1+lr.IntN(3); i++ { // b admits (and gives back) in its first strategy
		if t, ok := s1.TryAcquire(ctxKey("b")); ok {
			t.Release()
		}
	}
	removed, _ := s1.RemovePartitionsMatching(ctxKey("b"))
	if len(removed) != 1 || !s2.AddPartition(removed[0]) {
		rt.Violation("C03/predicate/removed-partition-cannot-be-added-to-another-strategy", idx, rt.J{"removed": len(removed)})
		return
	}
	var toks []core.StrategyToken
	for i := 0; i < L; i++ {
		if t, ok := s2.TryAcquire(ctxKey("b")); ok {
			toks = append(toks, t)
		}
	}
	granted := len(toks)
	for _, t := range toks {
		t.Release()
	}
	rt.Count("partitions_moved_between_strategies", 1)
	if granted != L || s2.BusyCount() != 0 || s1.BusyCount() != 0 {
		rt.Violation("C03/predicate/partition-moved-to-another-strategy-is-not-accounted-there", idx, rt.J{"limit": L, "granted_to_the_moved_partition_in_its_new_strategy": granted,
			"new_strategy_busy_after_all_released": s2.BusyCount(), "old_strategy_busy": s1.BusyCount()})
		return
	}
	// (b)
	twin := mk("a", "a2", 0.25) // same name as the registered "a", its own predicate
	if !s1.AddPartition(twin) {
		rt.Violation("C03/predicate/distinct-partition-with-a-name-in-use-not-added", idx, rt.J{"strategy": s1.String()})
		return
	}
	t, ok := s1.TryAcquire(ctxKey("a2"))
	rt.Count("partitions_added_under_a_name_in_use", 1)
	if !ok {
		rt.Violation("C03/predicate/request-of-an-added-partition-refused-while-idle", idx, rt.J{"strategy": s1.String()})
		return
	}
	t.Release()
}

// sharedBackingArray: two predicate strategies are built from two sub-slices of one array of partitions (what a caller
// gets who keeps all its partitions in one slice and hands each strategy its part).  Adding a partition to the first
// strategy must not touch the second: an idle strategy keeps admitting the requests of its own partition.
func sharedBackingArray(idx int64, lr *rand.Rand) {
	mk := func(name string) *strategy.PredicatePartition {
		return strategy.NewPredicatePartitionWithMetricRegistry(name, 0.25, func(ctx context.Context) bool { return keyOf(ctx) == name }, core.EmptyMetricRegistryInstance)
	}
	n := 2 + lr.IntN(4)
	all := make([]*strategy.PredicatePartition, n)
	names := make([]string, n)
	for i := range all {
		names[i] = fmt.Sprintf("p%d", i)
		all[i] = mk(names[i])
	}
	cut := 1 + lr.IntN(n-1)
	s1, err1 := strategy.NewPredicatePartitionStrategyWithMetricRegistry(all[:cut], 8, core.EmptyMetricRegistryInstance)
	s2, err2 := strategy.NewPredicatePartitionStrategyWithMetricRegistry(all[cut:], 8, core.EmptyMetricRegistryInstance)
	if err1 != nil || err2 != nil {
		panic("c03 sharedBackingArray: constructor refused")
	}
	concurrently := lr.IntN(2) == 0
	if concurrently {
		var wg sync.WaitGroup
		wg.Add(2)
		go func() { defer wg.Done(); s1.AddPartition(mk("x")) }()
		go func() { defer wg.Done(); s2.AddPartition(mk("y")) }()
		wg.Wait()
	} else {
		s1.AddPartition(mk("x"))
	}
	rt.Count("strategies_built_from_sub_slices_of_one_array", 1)
	for i, nm := range names {
		st, which := s1, "first"
		if i >= cut {
			st, which = s2, "second"
		}
		tok, ok := st.TryAcquire(ctxKey(nm))
		if !ok {
			rt.Violation("C03/predicate/idle-strategy-refuses-its-own-partition-after-another-strategy-added-one", idx, rt.J{"partitions": names, "first_strategy_has": names[:cut],
				"second_strategy_has": names[cut:], "refused_request_for": nm, "on_the": which + " strategy", "additions_made_concurrently": concurrently, "strategy": st.String()})
			return
		}
		tok.Release()
	}
	if tok, ok := s1.TryAcquire(ctxKey("x")); !ok {
		rt.Violation("C03/predicate/added-partition-missing", idx, rt.J{"strategy": s1.String()})
		return
	} else {
		tok.Release()
	}
}

var spinSink atomic.Int64

func spinFor(n int) {
	for i := 0; i < n; i++ {
		spinSink.Add(1)
	}
}

// acquireVsRemove: on a lookup strategy, TryAcquire(k) racing with RemovePartition(k) while the total is at the limit, the
// unknown bin holds its share and k holds nothing.  The request is decided either before the removal (admitted on k's
// guaranteed share; the removal reports 1 busy) or after it (k's requests now belong to the full unknown bin: refused;
// the removal reports 0).  Any other pair of results has no sequential explanation.
func acquireVsRemove(idx int64, lr *rand.Rand) {
	mk := func(name string) *strategy.LookupPartition {
		return strategy.NewLookupPartitionWithMetricRegistry(name, 0.25, 1, core.EmptyMetricRegistryInstance)
	}
	st, err := strategy.NewLookupPartitionStrategyWithMetricRegistry(map[string]*strategy.LookupPartition{"j": mk("j"), "k": mk("k")}, nil, 2, core.EmptyMetricRegistryInstance)
	if err != nil {
		panic(err)
	}
	ck := ctxKey("k")
	for round := 0; round < 400; round++ {
		tu, oku := st.TryAcquire(ctxKey("zz"))
		tj, okj := st.TryAcquire(ctxKey("j"))
		if !oku || !okj {
			panic("c03 acquireVsRemove: set-up refused")
		}
		bar := lin.NewBarrier(2)
		var wg sync.WaitGroup
		wg.Add(2)
		var tok core.StrategyToken
		var ok, found bool
		var busy int
		spinA, spinR := lr.IntN(40), lr.IntN(40)
		go func() { defer wg.Done(); bar.Wait(); spinFor(spinA); tok, ok = st.TryAcquire(ck) }()
		go func() { defer wg.Done(); bar.Wait(); spinFor(spinR); busy, found = st.RemovePartition("k") }()
		wg.Wait()
		rt.Count("acquire_vs_remove_rounds", 1)
		if ok {
			rt.Count("acquire_vs_remove_rounds/request-first", 1)
		} else {
			rt.Count("acquire_vs_remove_rounds/removal-first", 1)
		}
		if !found || ok != (busy == 1) || busy > 1 {
			rt.Violation("C03/lookup/request-racing-with-the-removal-of-its-partition-has-no-sequential-explanation", idx, rt.J{"round": round,
				"request_admitted": ok, "RemovePartition_reported_busy": busy, "RemovePartition_found": found, "strategy": st.String()})
			return
		}
		if tok != nil {
			tok.Release()
		}
		tu.Release()
		tj.Release()
		if st.BusyCount() != 0 {
			rt.Violation("C03/lookup/busy-not-zero-after-all-released/acquire-vs-remove", idx, rt.J{"round": round, "busy": st.BusyCount()})
			return
		}
		st.AddPartition("k", mk("k"))
	}
}

// addVsRemove: on a predicate strategy, AddPartition(x) racing with RemovePartitionsMatching(y).  After both returned,
// x must be there (its requests are admitted) and y must be gone (its requests match nothing and are refused).
func addVsRemove(idx int64, lr *rand.Rand) {
	mk := func(name string) *strategy.PredicatePartition {
		return strategy.NewPredicatePartitionWithMetricRegistry(name, 1.0/32, func(ctx context.Context) bool { return keyOf(ctx) == name }, core.EmptyMetricRegistryInstance)
	}
	st, err := strategy.NewPredicatePartitionStrategyWithMetricRegistry([]*strategy.PredicatePartition{mk("base"), mk("y")}, 8, core.EmptyMetricRegistryInstance)
	if err != nil {
		panic(err)
	}
	for round := 0; round < 150; round++ {
		x := mk("x")
		bar := lin.NewBarrier(2)
		var wg sync.WaitGroup
		wg.Add(2)
		var added, removedAny bool
		go func() { defer wg.Done(); bar.Wait(); added = st.AddPartition(x) }()
		go func() { defer wg.Done(); bar.Wait(); _, removedAny = st.RemovePartitionsMatching(ctxKey("y")) }()
		wg.Wait()
		rt.Count("storm_add_vs_remove_rounds", 1)
		tx, okx := st.TryAcquire(ctxKey("x"))
		ty, oky := st.TryAcquire(ctxKey("y"))
		if !added || !removedAny || !okx || oky {
			rt.Violation("C03/predicate/partition-set-wrong-after-concurrent-add-and-remove", idx, rt.J{"round": round, "AddPartition(x)_returned": added,
				"RemovePartitionsMatching(y)_found": removedAny, "request_for_x_admitted": okx, "request_for_y_admitted": oky, "strategy": st.String()})
			return
		}
		tx.Release()
		if ty != nil {
			ty.Release()
		}
		// restore: y back, x away
		st.RemovePartitionsMatching(ctxKey("x"))
		st.AddPartition(mk("y"))
	}
}
