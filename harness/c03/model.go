package c03

import "math"

// Reference model of partitioned admission, written from the property statement:
// admit(p) iff total < limit or p.busy < share(p), share(p) = max(1, ceil(limit * fraction)).
type part struct {
	Name    string
	Num     int // fraction = Num/Den
	Den     int
	Busy    int
	Removed bool
}

func (p *part) frac() float64 { return float64(p.Num) / float64(p.Den) }

type model struct {
	Limit   int
	Busy    int
	Parts   []*part // registration order (first match wins for predicates)
	Unknown *part   // lookup strategy only: zero-fraction bucket
}

func shareExact(limit int, p *part) int {
	s := (limit*p.Num + p.Den - 1) / p.Den
	if s < 1 {
		s = 1
	}
	return s
}

func shareFloat(limit int, p *part) int {
	return int(math.Max(1, math.Ceil(float64(limit)*p.frac())))
}

// ambiguous reports whether binary rounding of limit*fraction makes the share depend on the evaluation order
// (e.g. 100*0.07 = 7.000000000000001); such limits are avoided by the generator, never judged.
func (m *model) ambiguous(limit int) bool {
	for _, p := range m.Parts {
		if !p.Removed && shareExact(limit, p) != shareFloat(limit, p) {
			return true
		}
	}
	return false
}

func (m *model) admit(p *part) bool {
	if p == nil {
		return false
	}
	return m.Busy < m.Limit || p.Busy < shareExact(m.Limit, p)
}

func (m *model) acquire(p *part) bool {
	if !m.admit(p) {
		return false
	}
	m.Busy++
	p.Busy++
	return true
}

func (m *model) release(p *part) {
	m.Busy--
	p.Busy--
}

func (m *model) setLimit(v int) {
	if v < 1 {
		v = 1
	}
	m.Limit = v
}
