// C03 — partitioned admission: guaranteed share, borrowing up to the total, exact bins.
// Sequential lock-step model comparison + concurrent histories checked with porcupine and at quiescence.
package c03

import (
	"context"
	"fmt"
	"math/rand/v2"
	"sort"
	"strings"
	"sync"
	"testing"

	"github.com/platinummonkey/go-concurrency-limits/core"
	"github.com/platinummonkey/go-concurrency-limits/strategy"
	"github.com/platinummonkey/go-concurrency-limits/strategy/matchers"

	"verifharness/internal/rt"
)

func TestMain(m *testing.M) { rt.Main(m) }

type keyT struct{}

// two request labels that are not tags at all: a request that carries no tag, and one whose tag is not a string. Neither
// is the empty tag "": the bundled matchers and the default lookup function treat them as "matches nothing" / unknown.
const (
	untagged  = "\x00untagged"
	nonString = "\x00non-string"
)

func ctxKey(k string) context.Context {
	c := context.WithValue(context.Background(), keyT{}, k)
	switch k {
	case untagged:
		return c
	case nonString:
		c = context.WithValue(c, matchers.LookupPartitionContextKey, 42)
		return context.WithValue(c, matchers.StringPredicateContextKey, []byte("a"))
	}
	c = context.WithValue(c, matchers.LookupPartitionContextKey, k)
	return context.WithValue(c, matchers.StringPredicateContextKey, k)
}

func keyOf(ctx context.Context) string {
	s, _ := ctx.Value(keyT{}).(string)
	return s
}

// sut abstracts the two strategies.
type sut interface {
	core.Strategy
	BusyCount() int
	Limit() int
}

type env struct {
	kind    string // lookup | predicate
	look    *strategy.LookupPartitionStrategy
	pred    *strategy.PredicatePartitionStrategy
	m       *model
	lparts  map[*part]*strategy.LookupPartition
	pparts  map[*part]*strategy.PredicatePartition
	matches map[*part]map[string]bool // predicate: keys matched by the partition
	// lookup with the bundled default lookup function: a request without a (string) tag is looked up under ""
	defaultLookup bool
}

func (e *env) s() sut {
	if e.kind == "lookup" {
		return e.look
	}
	return e.pred
}

// which model partition does key map to (nil = refused outright)
func (e *env) route(key string) *part {
	if e.kind == "lookup" {
		if e.defaultLookup && (key == untagged || key == nonString) {
			key = ""
		}
		for _, p := range e.m.Parts {
			if !p.Removed && p.Name == key {
				return p
			}
		}
		return e.m.Unknown
	}
	for _, p := range e.m.Parts {
		if !p.Removed && e.matches[p][key] {
			return p
		}
	}
	return nil
}

func genFrac(r *rand.Rand, dyadic bool, remaining *int) (int, int) {
	den := 100
	if dyadic {
		den = 32
	}
	if *remaining <= 0 {
		return 0, den
	}
	n := r.IntN(*remaining + 1)
	if r.IntN(6) == 0 {
		n = 0
	}
	*remaining -= n
	return n, den
}

var allKeys = []string{"a", "b", "c", "d", "e", "zz", "", "A", "B", "\u0130", untagged, nonString} // U+0130: an upper-case letter whose lower-case form is longer in UTF-8

func build(r *rand.Rand) (*env, rt.J) {
	e := &env{m: &model{}, lparts: map[*part]*strategy.LookupPartition{}, pparts: map[*part]*strategy.PredicatePartition{},
		matches: map[*part]map[string]bool{}}
	dyadic := r.IntN(2) == 0
	den := 100
	if dyadic {
		den = 32
	}
	remaining := den
	if !dyadic {
		remaining = den - 1 // decimal fractions summing to exactly 100/100 can exceed 1.0 in float addition (constructor rejects)
	}
	np := 1 + r.IntN(5)
	limit := 1 + r.IntN(50)
	e.m.Limit = limit
	desc := rt.J{"limit": limit}
	var pdesc []string
	if r.IntN(2) == 0 {
		e.kind = "lookup"
		emptyKeyPartition := false
		parts := map[string]*strategy.LookupPartition{}
		for i := 0; i < np; i++ {
			num, d := genFrac(r, dyadic, &remaining)
			p := &part{Name: allKeys[i], Num: num, Den: d}
			if i == 0 && r.IntN(4) == 0 {
				p.Name = "" // a partition registered under the empty key: a key like any other
				emptyKeyPartition = true
			}
			e.m.Parts = append(e.m.Parts, p)
			lp := strategy.NewLookupPartitionWithMetricRegistry(objName(r, p.Name), p.frac(), int32(1+r.IntN(20)), core.EmptyMetricRegistryInstance)
			parts[p.Name] = lp
			e.lparts[p] = lp
			pdesc = append(pdesc, fmt.Sprintf("%s=%d/%d", p.Name, num, d))
		}
		for e.m.ambiguous(limit) {
			limit = 1 + r.IntN(50)
			e.m.Limit = limit
			desc["limit"] = limit
		}
		e.m.Unknown = &part{Name: "<unknown>", Num: 0, Den: 1}
		var lf func(context.Context) string
		if r.IntN(2) == 0 {
			lf = keyOf
		}
		e.defaultLookup = lf == nil
		if emptyKeyPartition {
			rt.Count("lookup_cases_with_a_partition_under_the_empty_key", 1)
		}
		s, err := strategy.NewLookupPartitionStrategyWithMetricRegistry(parts, lf, int32(limit), core.EmptyMetricRegistryInstance)
		if err != nil {
			panic(err)
		}
		e.look = s
	} else {
		e.kind = "predicate"
		var parts []*strategy.PredicatePartition
		for i := 0; i < np; i++ {
			num, d := genFrac(r, dyadic, &remaining)
			p := &part{Name: fmt.Sprintf("p%d", i), Num: num, Den: d}
			e.m.Parts = append(e.m.Parts, p)
			pp := e.newPred(r, p)
			parts = append(parts, pp)
			pdesc = append(pdesc, fmt.Sprintf("%s=%d/%d matches %v", p.Name, num, d, keysOf(e.matches[p])))
		}
		for e.m.ambiguous(limit) {
			limit = 1 + r.IntN(50)
			e.m.Limit = limit
			desc["limit"] = limit
		}
		s, err := strategy.NewPredicatePartitionStrategyWithMetricRegistry(parts, int32(limit), core.EmptyMetricRegistryInstance)
		if err != nil {
			panic(err)
		}
		e.pred = s
	}
	desc["kind"], desc["partitions"], desc["remaining_fraction_units"] = e.kind, pdesc, remaining
	return e, desc
}

// objName: the name a lookup partition object reports (a metric tag) is independent of the key it is registered
// under (which routes requests); half of the objects are named after another routable key.
func objName(r *rand.Rand, key string) string {
	if r.IntN(2) == 0 {
		return key
	}
	return allKeys[r.IntN(6)]
}

func keysOf(m map[string]bool) []string {
	var ks []string
	for k := range m {
		ks = append(ks, k)
	}
	sort.Strings(ks)
	return ks
}

func (e *env) newPred(r *rand.Rand, p *part) *strategy.PredicatePartition {
	set := map[string]bool{}
	var f func(context.Context) bool
	if r.IntN(3) == 0 { // the bundled string matcher, both flavours, patterns in either case
		k := []string{"a", "b", "c", "A", "B", "\u0130", ""}[r.IntN(7)] // "": matches the empty tag only, never a missing one
		if r.IntN(2) == 0 {
			set[strings.ToLower(k)], set[strings.ToUpper(k)] = true, true
			f = matchers.StringPredicateMatcher(k, true)
		} else {
			set[k] = true // case-sensitive: exactly the pattern
			f = matchers.StringPredicateMatcher(k, false)
		}
	} else { // overlapping key sets
		for _, k := range allKeys[:10] {
			if r.IntN(3) == 0 {
				set[k] = true
			}
		}
		f = func(ctx context.Context) bool { return set[keyOf(ctx)] }
	}
	e.matches[p] = set
	pp := strategy.NewPredicatePartitionWithMetricRegistry(p.Name, p.frac(), f, core.EmptyMetricRegistryInstance)
	e.pparts[p] = pp
	return pp
}

type held struct {
	tok core.StrategyToken
	p   *part
}

func (e *env) compare(fail func(string, rt.J)) bool {
	s := e.s()
	if got := s.BusyCount(); got != e.m.Busy {
		fail("total-busy-mismatch", rt.J{"got": got, "model": e.m.Busy})
		return false
	}
	if got := s.Limit(); got != e.m.Limit {
		fail("total-limit-mismatch", rt.J{"got": got, "model": e.m.Limit})
		return false
	}
	sum := 0
	if e.m.Unknown != nil {
		sum += e.m.Unknown.Busy
	}
	li := 0
	for _, p := range e.m.Parts {
		sum += p.Busy
		var busy, lim int
		if e.kind == "lookup" {
			busy = e.lparts[p].BusyCount()
			lim = e.lparts[p].Limit()
		} else {
			busy = e.pparts[p].BusyCount()
			lim = e.pparts[p].Limit()
		}
		if busy != p.Busy {
			fail("bin-busy-mismatch", rt.J{"partition": p.Name, "got": busy, "model": p.Busy, "removed": p.Removed})
			return false
		}
		if p.Removed {
			continue
		}
		want := shareExact(e.m.Limit, p)
		if lim != want {
			fail("bin-share-mismatch", rt.J{"partition": p.Name, "got": lim, "want": want, "limit": e.m.Limit, "fraction": fmt.Sprintf("%d/%d", p.Num, p.Den)})
			return false
		}
		// the strategy's own accessors must agree with the partition objects
		var b2, l2 int
		var err1, err2 error
		if e.kind == "lookup" {
			b2, err1 = e.look.BinBusyCount(p.Name)
			l2, err2 = e.look.BinLimit(p.Name)
		} else {
			b2, err1 = e.pred.BinBusyCount(li)
			l2, err2 = e.pred.BinLimit(li)
		}
		if err1 != nil || err2 != nil || b2 != p.Busy || l2 != want {
			fail("bin-accessor-mismatch", rt.J{"partition": p.Name, "BinBusyCount": b2, "BinLimit": l2, "model_busy": p.Busy, "model_share": want, "errs": fmt.Sprint(err1, err2)})
			return false
		}
		li++
	}
	if sum != e.m.Busy {
		panic("model inconsistent")
	}
	return true
}

func sequential(idx int64, r *rand.Rand) {
	e, desc := build(r)
	var hs []held
	var ops []string
	failed := false
	fail := func(sig string, extra rt.J) {
		failed = true
		extra["config"] = desc
		lo := len(ops) - 25
		if lo < 0 {
			lo = 0
		}
		extra["ops_tail"], extra["ops"] = ops[lo:], len(ops)
		rt.Violation("C03/"+e.kind+"/"+sig, idx, extra)
	}
	if !e.compare(fail) {
		return
	}
	nops := 20 + r.IntN(100)
	grants, refusals, borrowed, guaranteed, unknownOps := 0, 0, 0, 0, 0
	dyn := r.IntN(3) == 0
	for i := 0; i < nops && !failed; i++ {
		x := r.IntN(100)
		switch {
		case x < 55: // acquire
			key := allKeys[r.IntN(len(allKeys))]
			if r.IntN(3) == 0 && len(e.m.Parts) > 0 && e.kind == "lookup" {
				key = e.m.Parts[r.IntN(len(e.m.Parts))].Name
			}
			p := e.route(key)
			wantOK := e.m.admit(p)
			wasFull := e.m.Busy >= e.m.Limit
			tok, ok := e.s().TryAcquire(ctxKey(key))
			ops = append(ops, fmt.Sprintf("acquire(%q)=%v", key, ok))
			rt.Count("acquires", 1)
			if p == e.m.Unknown && p != nil || p == nil {
				unknownOps++
			}
			if ok != wantOK {
				what := "refused-although-admissible"
				if ok {
					what = "admitted-although-full"
				}
				if p == nil {
					what = "unmatched-request-admitted"
				} else if p == e.m.Unknown {
					what += "/unknown-bucket"
				}
				fail(what, rt.J{"key": key, "partition": fmt.Sprint(p), "total_busy": e.m.Busy, "total_limit": e.m.Limit})
				return
			}
			if ok != (tok != nil && tok.IsAcquired()) {
				fail("token-disagrees-with-ok", rt.J{"key": key, "ok": ok})
				return
			}
			if ok {
				e.m.acquire(p)
				hs = append(hs, held{tok, p})
				grants++
				if wasFull {
					guaranteed++
				} else if p.Busy > shareExact(e.m.Limit, p) {
					borrowed++
				}
			} else {
				refusals++
			}
		case x < 85: // release
			if len(hs) == 0 {
				continue
			}
			k := r.IntN(len(hs))
			h := hs[k]
			hs = append(hs[:k], hs[k+1:]...)
			h.tok.Release()
			e.m.release(h.p)
			ops = append(ops, fmt.Sprintf("release(%s)", h.p.Name))
			rt.Count("releases", 1)
		case x < 93: // SetLimit
			v := -2 + r.IntN(63)
			for tries := 0; e.m.ambiguous(max1(v)) && tries < 20; tries++ {
				v = -2 + r.IntN(63)
				rt.Count("ambiguous_rounding_avoided", 1)
			}
			if e.m.ambiguous(max1(v)) {
				continue
			}
			if r.IntN(4) == 0 {
				v = e.m.Limit // same value again
			}
			e.s().SetLimit(v)
			e.m.setLimit(v)
			ops = append(ops, fmt.Sprintf("SetLimit(%d)", v))
			rt.Count("setlimits", 1)
		default:
			if !dyn {
				continue
			}
			if r.IntN(2) == 0 { // add
				used := 0
				den := 100
				for _, p := range e.m.Parts {
					den = p.Den
					if !p.Removed {
						used += p.Num
					}
				}
				rem := den - used
				if den == 100 {
					rem--
				}
				num, d := genFrac(r, den == 32, &rem)
				p := &part{Num: num, Den: d}
				if e.kind == "lookup" {
					var free []string
					for _, k := range allKeys[:6] {
						if e.route(k) == e.m.Unknown {
							free = append(free, k)
						}
					}
					if len(free) == 0 {
						continue
					}
					p.Name = free[r.IntN(len(free))]
					if shareExact(e.m.Limit, p) != shareFloat(e.m.Limit, p) {
						continue
					}
					if r.IntN(3) == 0 {
						// a key that is already registered must be refused whatever the new object calls itself, and nothing may change
						for _, k := range allKeys[:6] {
							if e.route(k) != e.m.Unknown {
								dup := strategy.NewLookupPartitionWithMetricRegistry(objName(r, p.Name), p.frac(), 1, core.EmptyMetricRegistryInstance)
								if e.look.AddPartition(k, dup) {
									fail("add-partition-accepted-a-registered-key", rt.J{"key": k, "object_name": dup.Name()})
									return
								}
								ops = append(ops, fmt.Sprintf("AddPartition(%s, object %q)=false", k, dup.Name()))
								rt.Count("partition_duplicate_adds_refused", 1)
								break
							}
						}
					}
					lp := strategy.NewLookupPartitionWithMetricRegistry(objName(r, p.Name), p.frac(), int32(1+r.IntN(20)), core.EmptyMetricRegistryInstance)
					if !e.look.AddPartition(p.Name, lp) {
						fail("add-partition-refused", rt.J{"name": p.Name})
						return
					}
					e.lparts[p] = lp
				} else {
					p.Name = fmt.Sprintf("p%d", len(e.m.Parts))
					if shareExact(e.m.Limit, p) != shareFloat(e.m.Limit, p) {
						continue
					}
					pp := e.newPred(r, p)
					if !e.pred.AddPartition(pp) {
						fail("add-partition-refused", rt.J{"name": p.Name})
						return
					}
				}
				e.m.Parts = append(e.m.Parts, p)
				ops = append(ops, fmt.Sprintf("AddPartition(%s=%d/%d)", p.Name, p.Num, p.Den))
				rt.Count("partition_adds", 1)
			} else { // remove
				if e.kind == "lookup" {
					key := allKeys[r.IntN(6)]
					p := e.route(key)
					busy, found := e.look.RemovePartition(key)
					ops = append(ops, fmt.Sprintf("RemovePartition(%q)=%d,%v", key, busy, found))
					if found != (p != e.m.Unknown) || (found && busy != p.Busy) {
						fail("remove-partition-result", rt.J{"key": key, "busy": busy, "found": found})
						return
					}
					if found {
						p.Removed = true
					}
				} else {
					key := allKeys[r.IntN(len(allKeys))]
					removed, any := e.pred.RemovePartitionsMatching(ctxKey(key))
					n := 0
					for _, p := range e.m.Parts {
						if !p.Removed && e.matches[p][key] {
							p.Removed = true
							n++
						}
					}
					ops = append(ops, fmt.Sprintf("RemovePartitionsMatching(%q)=%d", key, len(removed)))
					if len(removed) != n || any != (n > 0) {
						fail("remove-partition-result", rt.J{"key": key, "removed": len(removed), "model": n})
						return
					}
				}
				rt.Count("partition_removes", 1)
			}
		}
		if !e.compare(fail) {
			return
		}
	}
	// drain: everything released => all zero
	for _, h := range hs {
		h.tok.Release()
		e.m.release(h.p)
	}
	if !e.compare(fail) {
		return
	}
	rt.Count("grants", int64(grants))
	rt.Count("refusals", int64(refusals))
	rt.Count("grants_on_guaranteed_share_while_total_full", int64(guaranteed))
	rt.Count("grants_borrowing_beyond_share", int64(borrowed))
	rt.Count("requests_for_unknown_or_unmatched_keys", int64(unknownOps))
	rt.Count("sequential_cases/"+e.kind, 1)
	if grants > 0 && refusals > 0 {
		rt.Distinct(fmt.Sprintf("%v|%d|%s", desc, len(ops), strings.Join(ops[len(ops)-min(len(ops), 6):], ";")))
	}
	if rt.WantSample() && idx%83 == 0 {
		rt.Sample(rt.J{"mode": "sequential", "config": desc, "ops_head": ops[:min(len(ops), 14)], "ops": len(ops), "grants": grants, "refusals": refusals})
	}
}

func max1(v int) int {
	if v < 1 {
		return 1
	}
	return v
}

// releaseWindow: total exactly at the limit, two partitions each exactly at their share.  One goroutine releases a
// token of partition a; another acquires for b and - only after that call returned - for a.  A grant for b can only
// be a borrowed one (b is at its share), so the release had happened when it was decided; a then has fewer outstanding
// tokens than its share and the acquire for a that started afterwards must be admitted.
func releaseWindow(idx int64, r *rand.Rand) {
	kind := []string{"lookup", "predicate"}[r.IntN(2)]
	rounds := 1500
	for round := 0; round < rounds; round++ {
		var st core.Strategy
		if kind == "lookup" {
			ps := map[string]*strategy.LookupPartition{
				"a": strategy.NewLookupPartitionWithMetricRegistry("a", 0.5, 1, core.EmptyMetricRegistryInstance),
				"b": strategy.NewLookupPartitionWithMetricRegistry("b", 0.5, 1, core.EmptyMetricRegistryInstance),
			}
			s, err := strategy.NewLookupPartitionStrategyWithMetricRegistry(ps, nil, 2, core.EmptyMetricRegistryInstance)
			if err != nil {
				panic(err)
			}
			st = s
		} else {
			ps := []*strategy.PredicatePartition{
				strategy.NewPredicatePartitionWithMetricRegistry("a", 0.5, matchers.StringPredicateMatcher("a", false), core.EmptyMetricRegistryInstance),
				strategy.NewPredicatePartitionWithMetricRegistry("b", 0.5, matchers.StringPredicateMatcher("b", false), core.EmptyMetricRegistryInstance),
			}
			s, err := strategy.NewPredicatePartitionStrategyWithMetricRegistry(ps, 2, core.EmptyMetricRegistryInstance)
			if err != nil {
				panic(err)
			}
			st = s
		}
		ta, okA := st.TryAcquire(ctxKey("a"))
		tb, okB := st.TryAcquire(ctxKey("b"))
		if !okA || !okB {
			rt.Violation("C03/"+kind+"/guaranteed-share-refused", idx, rt.J{"round": round})
			return
		}
		var wg sync.WaitGroup
		bar := make(chan struct{})
		var b2, a2 core.StrategyToken
		var okB2, okA2 bool
		wg.Add(2)
		go func() { defer wg.Done(); <-bar; ta.Release() }()
		go func() {
			defer wg.Done()
			<-bar
			// keep asking for b until the freed slot can be borrowed: the grant comes at the earliest instant it can
			for i := 0; i < 2000000 && !okB2; i++ {
				b2, okB2 = st.TryAcquire(ctxKey("b"))
			}
			a2, okA2 = st.TryAcquire(ctxKey("a"))
		}()
		close(bar)
		wg.Wait()
		rt.Count("release_window_rounds", 1)
		if okB2 {
			rt.Count("release_window_rounds_with_a_borrowed_grant", 1)
		}
		if okB2 && !okA2 {
			rt.Violation("C03/"+kind+"/refused-below-share-while-a-release-was-in-progress", idx, rt.J{"round": round,
				"meaning": "partition b (at its share) was granted a borrowed slot, so the release of a's token had freed it; the following request for a - with 0 outstanding against a share of 1 - was refused"})
			return
		}
		for _, tk := range []core.StrategyToken{tb, b2, a2} {
			if tk != nil && tk.IsAcquired() {
				tk.Release()
			}
		}
	}
	rt.Distinct(fmt.Sprintf("relwin|%s|%d", kind, idx))
}

func TestCheck(t *testing.T) {
	rt.Cases(17000, 1700000, func(idx int64) {
		r := rt.CaseRand(3, idx)
		rt.Case()
		switch m := idx % 17; {
		case m < 14:
			sequential(idx, r)
		case m == 14 && idx%170 == 14:
			releaseWindow(idx, r)
		case m == 14:
			storm(idx, r)
		default:
			concurrent(idx, r)
		}
	})
}
