// C05 — enforcement follows the estimate: strategy limit and partition shares track every update.
package c05

import (
	"context"
	"fmt"
	"math"
	"math/big"
	"math/rand/v2"
	"runtime"
	"sync"
	"sync/atomic"
	"testing"
	"testing/synctest"
	"time"

	"github.com/platinummonkey/go-concurrency-limits/core"
	"github.com/platinummonkey/go-concurrency-limits/limit"
	"github.com/platinummonkey/go-concurrency-limits/limiter"
	"github.com/platinummonkey/go-concurrency-limits/strategy"
	"github.com/platinummonkey/go-concurrency-limits/strategy/matchers"

	"verifharness/internal/inject"
	"verifharness/internal/limgen"
	"verifharness/internal/rt"
)

func TestMain(m *testing.M) { rt.Main(m) }

func keyCtx(k string) context.Context {
	c := context.WithValue(context.Background(), matchers.LookupPartitionContextKey, k)
	return context.WithValue(c, matchers.StringPredicateContextKey, k)
}

type stack struct {
	name    string
	st      core.Strategy
	busy    func() int
	limit   func() int
	nums    []int // fractions of 32 per partition
	binLim  func(i int) int
	keys    []string
	unknown bool     // lookup: has an unknown bucket
	direct  []func() // accessors of the partition objects themselves (what a gauge supplier or the owner of the object calls)
}

func share(total, num int) int {
	s := (total*num + 31) / 32
	if s < 1 {
		s = 1
	}
	return s
}

func buildStack(r *rand.Rand, initial int) stack {
	switch r.IntN(4) {
	case 0:
		s := strategy.NewSimpleStrategy(initial)
		return stack{name: "simple", st: s, limit: s.GetLimit, busy: s.GetBusyCount, keys: []string{""}}
	case 1:
		s := strategy.NewPreciseStrategy(initial)
		return stack{name: "precise", st: s, limit: s.GetLimit, busy: s.GetBusyCount, keys: []string{""}}
	}
	n := 1 + r.IntN(3)
	lookup := r.IntN(2) == 0
	if lookup && r.IntN(5) == 0 {
		n = 0 // a lookup strategy without any named partition: every request runs on the built-in bucket for unknown keys
	}
	nums := make([]int, n)
	rem := 32
	names := []string{"a", "b", "c"}[:n]
	for i := range nums {
		nums[i] = r.IntN(rem + 1)
		rem -= nums[i]
	}
	if lookup {
		ps := map[string]*strategy.LookupPartition{}
		if n == 0 { // the constructor wants at least one partition: it is removed again right away
			ps["gone"] = strategy.NewLookupPartitionWithMetricRegistry("gone", 0.5, 1, core.EmptyMetricRegistryInstance)
		}
		for i, k := range names {
			ps[k] = strategy.NewLookupPartitionWithMetricRegistry(k, float64(nums[i])/32, int32(1+r.IntN(9)), core.EmptyMetricRegistryInstance)
		}
		s, err := strategy.NewLookupPartitionStrategyWithMetricRegistry(ps, nil, int32(initial), core.EmptyMetricRegistryInstance)
		if err != nil {
			panic(err)
		}
		if n == 0 {
			s.RemovePartition("gone")
			return stack{name: "lookup", st: s, limit: s.Limit, nums: nums, keys: []string{"zz"}, unknown: false}
		}
		var direct []func()
		for _, k := range names {
			lp := ps[k]
			direct = append(direct, func() { _ = lp.Limit() }, func() { _ = lp.BusyCount() }, func() { _ = lp.IsLimitExceeded() }, func() { _ = lp.String() })
		}
		return stack{name: "lookup", st: s, limit: s.Limit, nums: nums, keys: names, unknown: true, direct: direct,
			binLim: func(i int) int { v, _ := s.BinLimit(names[i]); return v }}
	}
	var ps []*strategy.PredicatePartition
	for i, k := range names {
		ps = append(ps, strategy.NewPredicatePartitionWithMetricRegistry(k, float64(nums[i])/32, matchers.StringPredicateMatcher(k, false), core.EmptyMetricRegistryInstance))
	}
	s, err := strategy.NewPredicatePartitionStrategyWithMetricRegistry(ps, int32(initial), core.EmptyMetricRegistryInstance)
	if err != nil {
		panic(err)
	}
	var direct []func()
	for _, pp := range ps {
		pp := pp
		direct = append(direct, func() { _ = pp.Limit() }, func() { _ = pp.BusyCount() }, func() { _ = pp.IsLimitExceeded() }, func() { _ = pp.String() })
	}
	return stack{name: "predicate", st: s, limit: s.Limit, nums: nums, keys: names, direct: direct,
		binLim: func(i int) int { v, _ := s.BinLimit(i); return v }}
}

func max1(v int) int {
	if v < 1 {
		return 1
	}
	return v
}

func scenario(t *testing.T, idx int64, r *rand.Rand) {
	// estimate trajectory: 0, negative, repeated, jumps
	traj := make([]int, 40)
	for i := range traj {
		switch r.IntN(8) {
		case 0:
			traj[i] = 0
		case 1:
			traj[i] = -1 - r.IntN(5)
		case 2:
			if i > 0 {
				traj[i] = traj[i-1]
			}
		case 3:
			traj[i] = 200 + r.IntN(800)
		default:
			traj[i] = 1 + r.IntN(40)
		}
	}
	var rec *inject.RecLimit
	var algo any = "scripted"
	initial := 1 + r.IntN(20)
	var settable *limit.SettableLimit // an algorithm whose estimate moves between windows (set from outside), never inside OnSample
	if r.IntN(6) == 0 {
		settable = limit.NewSettableLimit("c05", initial, nil)
		rec = inject.NewWrappedLimit(settable)
		algo = "settable (estimate set out of band between windows)"
	} else if r.IntN(3) == 0 {
		spec := limgen.Gen(r, []string{"aimd", "gradient2", "vegas"}[r.IntN(3)], limgen.Opts{})
		rec = inject.NewWrappedLimit(spec.New(nil, "c05"))
		algo = spec
	} else {
		if r.IntN(4) == 0 {
			initial = []int{0, -2}[r.IntN(2)] // the estimate at construction may itself be < 1
		}
		rec = inject.NewScriptedLimit(initial, func(n int) int { return traj[n%len(traj)] })
	}
	stratArg := 1 + r.IntN(30)
	if r.IntN(4) == 0 {
		stratArg = rec.EstimatedLimit() // the strategy is built with the very number the algorithm starts from (also 0 or negative)
	}
	sk := buildStack(r, stratArg)
	windowSize := 10 + r.IntN(4)
	concurrent := r.IntN(4) == 0 && settable == nil
	cfg := rt.J{"strategy": sk.name, "strategy_constructed_with": stratArg, "fractions_of_32": sk.nums, "algorithm": algo, "window_size": windowSize, "concurrent": concurrent, "initial_estimate": rec.EstimatedLimit()}
	if algo == "scripted" {
		cfg["estimate_trajectory_head"] = traj[:10]
	}
	updates := 0
	bad := false
	body := func(t *testing.T) {
		var enforce core.Strategy = sk.st
		if concurrent {
			// schedule points between "estimate read" and "strategy updated": harmless under the limiter lock, an
			// overtaking window if the update were moved outside it
			var n atomic.Int64
			yield := func() {
				if n.Add(1)%3 != 0 {
					for i := 0; i < 40; i++ {
						runtime.Gosched()
					}
				}
			}
			rec.OnEstimate = yield
			enforce = &inject.YieldStrategy{Inner: sk.st, BeforeSetLimit: func(int) { yield() }}
		}
		// the logger is optional (nil = no logging): it changes nothing about what is enforced
		var lg limit.Logger = limit.NoopLimitLogger{}
		switch r.IntN(4) {
		case 0:
			lg = nil
			rt.Count("limiters_built_without_a_logger", 1)
		case 1:
			lg = limgen.DebugLogger{}
		}
		dl, err := limiter.NewDefaultLimiter(rec, 1, 1, 0, windowSize, enforce, lg, core.EmptyMetricRegistryInstance)
		if err != nil {
			panic(err)
		}
		fail := func(sig string, extra rt.J) {
			if bad {
				return
			}
			bad = true
			extra["config"] = cfg
			extra["updates_so_far"] = updates
			rt.Violation("C05/"+sk.name+"/"+sig, idx, extra)
		}
		verify := func(when string, est int) {
			want := max1(est)
			rt.Count("enforcement_checks", 1)
			if got := sk.limit(); got != want {
				fail("enforced-limit-differs-from-estimate/"+when, rt.J{"enforced": got, "estimate": est, "want": want})
				return
			}
			for i := range sk.nums {
				if got, w := sk.binLim(i), share(want, sk.nums[i]); got != w {
					fail("partition-share-not-recomputed-from-estimate/"+when, rt.J{"partition": sk.keys[i], "share": got, "want": w, "estimate": est})
					return
				}
				rt.Count("share_checks", 1)
			}
		}
		verify("after-construction", rec.EstimatedLimit())
		if concurrent {
			// gauge pollers: readers of the strategy's limit / busy count (what a metric registry does), running throughout
			stopPoll := make(chan struct{})
			var pollers sync.WaitGroup
			for p := 0; p < 2; p++ {
				pollers.Add(1)
				go func() {
					defer pollers.Done()
					for {
						select {
						case <-stopPoll:
							return
						default:
							sk.limit()
							if sk.busy != nil {
								sk.busy()
							}
							for _, f := range sk.direct {
								f()
							}
						}
					}
				}()
			}
			defer func() { close(stopPoll); pollers.Wait() }()
			seeds := make([]uint64, 8)
			for i := range seeds {
				seeds[i] = r.Uint64()
			}
			for round := 0; round < 10 && !bad; round++ {
				var wg sync.WaitGroup
				for g := 0; g < 8; g++ {
					wg.Add(1)
					go func(g int) {
						defer wg.Done()
						lr := rand.New(rand.NewPCG(seeds[g], uint64(5+round)))
						for i := 0; i < 12; i++ {
							l, ok := dl.Acquire(keyCtx(sk.keys[lr.IntN(len(sk.keys))]))
							if !ok {
								runtime.Gosched()
								continue
							}
							if lr.IntN(2) == 0 {
								runtime.Gosched()
							}
							if lr.IntN(6) == 0 {
								l.OnDropped()
							} else {
								l.OnSuccess()
							}
						}
					}(g)
				}
				wg.Wait()
				hook := rec.OnEstimate
				rec.OnEstimate = nil
				updates = rec.Count()
				if s, ok := rec.Last(); ok {
					verify("at-quiescence-after-concurrent-updates", s.EstAfter)
				}
				rec.OnEstimate = hook
			}
			rec.OnEstimate = nil
		} else {
			var held []core.Listener
			for i := 0; i < 150+r.IntN(400) && !bad; i++ {
				if len(held) < 3 && r.IntN(2) == 0 {
					if l, ok := dl.Acquire(keyCtx(sk.keys[r.IntN(len(sk.keys))])); ok {
						held = append(held, l)
					}
					continue
				}
				if len(held) == 0 {
					continue
				}
				if settable != nil && r.IntN(6) == 0 {
					settable.SetLimit(traj[r.IntN(len(traj))])
					rt.Count("out_of_band_estimate_changes", 1)
				}
				time.Sleep(time.Duration(1 + r.IntN(20)))
				l := held[0]
				held = held[1:]
				before := rec.Count()
				switch r.IntN(8) {
				case 0:
					l.OnIgnore()
				case 1:
					l.OnDropped()
				default:
					l.OnSuccess()
				}
				if rec.Count() > before {
					updates++
					s, _ := rec.Last()
					verify("after-update", s.EstAfter)
				}
			}
			for _, l := range held {
				l.OnIgnore()
			}
		}
		// lookup strategy: the unknown bucket's share follows the same value (probed behaviourally)
		if sk.unknown && !bad {
			total := sk.limit()
			var toks []core.StrategyToken
			for i := 0; i < total; i++ {
				if tk, ok := sk.st.TryAcquire(keyCtx(sk.keys[0])); ok {
					toks = append(toks, tk)
				}
			}
			if len(toks) == total {
				admitted := 0
				for i := 0; i < 4; i++ {
					if tk, ok := sk.st.TryAcquire(keyCtx("no-such-partition")); ok {
						admitted++
						toks = append(toks, tk)
					}
				}
				rt.Count("unknown_bucket_probes", 1)
				if admitted != 1 {
					fail("unknown-bucket-share-differs-from-zero-fraction-share", rt.J{"admitted_with_total_exhausted": admitted, "want": 1, "total": total})
				}
			}
			for _, tk := range toks {
				tk.Release()
			}
		}
	}
	if concurrent {
		// real time: two updates can only follow each other closely if the clock moves while a goroutine is paused at a
		// schedule point, which a bubble's virtual clock never does
		body(t)
	} else {
		bubble(t, body)
	}
	rt.Count("scenarios/"+sk.name, 1)
	rt.Count("updates_observed", int64(updates))
	if concurrent {
		rt.Count("concurrent_scenarios", 1)
	}
	if updates >= 2 && !bad {
		rt.Distinct(fmt.Sprintf("%v|%d", cfg, updates))
	}
	if rt.WantSample() && idx%19 == 4 {
		rt.Sample(rt.J{"config": cfg, "updates": updates})
	}
}

// addVsUpdate: a dynamic AddPartition racing with the sample-driven update that changes the limit.  After both
// returned, the new partition's share (like every other) must be derived from the limit now enforced.
func addVsUpdate(idx int64, r *rand.Rand) {
	off := r.IntN(1000)
	rec := inject.NewScriptedLimit(5+r.IntN(20), func(n int) int { return 1 + (off+n*7)%45 })
	kind := []string{"lookup", "predicate"}[r.IntN(2)]
	var look *strategy.LookupPartitionStrategy
	var pred *strategy.PredicatePartitionStrategy
	var st core.Strategy
	if kind == "lookup" {
		ps := map[string]*strategy.LookupPartition{"a": strategy.NewLookupPartitionWithMetricRegistry("a", 8.0/32, 1, core.EmptyMetricRegistryInstance)}
		look, _ = strategy.NewLookupPartitionStrategyWithMetricRegistry(ps, nil, 10, core.EmptyMetricRegistryInstance)
		st = look
	} else {
		ps := []*strategy.PredicatePartition{strategy.NewPredicatePartitionWithMetricRegistry("a", 8.0/32, matchers.StringPredicateMatcher("a", false), core.EmptyMetricRegistryInstance)}
		pred, _ = strategy.NewPredicatePartitionStrategyWithMetricRegistry(ps, 10, core.EmptyMetricRegistryInstance)
		st = pred
	}
	const windowSize = 10
	dl, err := limiter.NewDefaultLimiter(rec, 1, 1, 0, windowSize, st, limit.NoopLimitLogger{}, core.EmptyMetricRegistryInstance)
	if err != nil {
		panic(err)
	}
	for round := 0; round < 60; round++ {
		// fill the window up to (not beyond) the readiness boundary, keep one token whose completion will close it
		before := rec.Count()
		var last core.Listener
		for rec.Count() == before {
			if last != nil {
				last.OnSuccess()
			}
			l, ok := dl.Acquire(keyCtx("a"))
			if !ok {
				return
			}
			for i := 0; i < 50; i++ { // a measurable (non-zero) rtt
				runtime.Gosched()
			}
			last = l
			if rec.Count() != before {
				break
			}
		}
		// the update has just happened with `last` still held; prepare the next one: completing `last` adds one sample
		last.OnSuccess()
		var hold core.Listener
		for i := 0; i < windowSize; i++ {
			l, ok := dl.Acquire(keyCtx("a"))
			if !ok {
				return
			}
			for j := 0; j < 50; j++ {
				runtime.Gosched()
			}
			if i == windowSize-1 {
				hold = l
			} else {
				l.OnSuccess()
			}
		}
		num := 1 + r.IntN(16)
		c0 := rec.Count()
		var wg sync.WaitGroup
		wg.Add(2)
		bar := make(chan struct{})
		go func() { defer wg.Done(); <-bar; hold.OnSuccess() }()
		if kind == "lookup" {
			np := strategy.NewLookupPartitionWithMetricRegistry("dyn", float64(num)/32, 1, core.EmptyMetricRegistryInstance)
			go func() { defer wg.Done(); <-bar; look.AddPartition("dyn", np) }()
		} else {
			np := strategy.NewPredicatePartitionWithMetricRegistry("dyn", float64(num)/32, matchers.StringPredicateMatcher("dyn", false), core.EmptyMetricRegistryInstance)
			go func() { defer wg.Done(); <-bar; pred.AddPartition(np) }()
		}
		close(bar)
		wg.Wait()
		rt.Count("add_vs_update_rounds", 1)
		if rec.Count() > c0 {
			rt.Count("add_vs_update_rounds_with_an_update", 1)
		}
		smp, _ := rec.Last()
		want := max1(smp.EstAfter)
		var gotLimit, gotShare int
		if kind == "lookup" {
			gotLimit = look.Limit()
			gotShare, _ = look.BinLimit("dyn")
		} else {
			gotLimit = pred.Limit()
			gotShare, _ = pred.BinLimit(1)
		}
		if gotLimit != want {
			rt.Violation("C05/"+kind+"/enforced-limit-differs-from-estimate/after-update-racing-with-AddPartition", idx, rt.J{"enforced": gotLimit, "estimate": smp.EstAfter})
			return
		}
		if gotShare != share(want, num) {
			rt.Violation("C05/"+kind+"/partition-share-not-recomputed-from-estimate/partition-added-while-the-limit-changed", idx,
				rt.J{"share": gotShare, "want": share(want, num), "fraction_of_32": num, "enforced_limit": gotLimit, "round": round})
			return
		}
		if kind == "lookup" {
			look.RemovePartition("dyn")
		} else {
			pred.RemovePartitionsMatching(keyCtx("dyn"))
		}
	}
	rt.Distinct(fmt.Sprintf("addvsupdate|%s|%d", kind, off))
}

// defaultsCtorCase: the convenience constructor (default Vegas algorithm, documented initial limit 20) with a
// strategy that was built with some other number: right after construction the strategy enforces the algorithm's
// estimate and every share derives from it.
func defaultsCtorCase(idx int64, r *rand.Rand) {
	arg := []int{1, 5, 19, 21, 100, 1000}[r.IntN(6)]
	sk := buildStack(r, arg)
	dl, err := limiter.NewDefaultLimiterWithDefaults("c05", sk.st, limit.NoopLimitLogger{}, core.EmptyMetricRegistryInstance)
	if err != nil {
		panic(err)
	}
	est := dl.EstimatedLimit()
	rt.Count("defaults_constructor_cases", 1)
	cfg := rt.J{"constructor": "NewDefaultLimiterWithDefaults", "strategy": sk.name, "strategy_constructed_with": arg, "fractions_of_32": sk.nums, "estimate": est}
	if got := sk.limit(); got != max1(est) {
		rt.Violation("C05/"+sk.name+"/enforced-limit-differs-from-estimate/after-construction", idx, rt.J{"config": cfg, "enforced": got})
		return
	}
	for i := range sk.nums {
		if got, w := sk.binLim(i), share(max1(est), sk.nums[i]); got != w {
			rt.Violation("C05/"+sk.name+"/partition-share-not-recomputed-from-estimate/after-construction", idx, rt.J{"config": cfg, "partition": sk.keys[i], "share": got, "want": w})
			return
		}
	}
	rt.Distinct(fmt.Sprintf("defctor|%s|%d|%v", sk.name, arg, sk.nums))
}

// decimalShares: partitions whose fraction is a decimal (k/100, not exactly representable).  The share of total T is the
// documented round-up of T x fraction, at least 1.  Evaluated on the float64 the caller really passed, that is one of
// (at most) two numbers: the round-up of the float product and the round-up of the exact product - usually the same.
func decimalShares(idx int64, r *rand.Rand) {
	accepted := func(total int, pct float64) (int, int) {
		f := int(math.Max(1, math.Ceil(float64(total)*pct)))
		ex := new(big.Rat).SetFloat64(pct)
		ex.Mul(ex, new(big.Rat).SetInt64(int64(total)))
		q := new(big.Int).Quo(ex.Num(), ex.Denom())
		e := int(q.Int64())
		if new(big.Rat).SetInt(q).Cmp(ex) < 0 {
			e++
		}
		if e < 1 {
			e = 1
		}
		return f, e
	}
	for i := 0; i < 150; i++ {
		pct := float64(1+r.IntN(99)) / 100
		if r.IntN(3) == 0 {
			pct = []float64{0.55, 0.28, 0.07, 0.14, 0.56, 0.29, 0.57, 0.58}[r.IntN(8)]
		}
		total := 1 + r.IntN(300)
		if r.IntN(3) == 0 {
			total = []int{50, 100, 180, 200}[r.IntN(4)]
		}
		total2 := 1 + r.IntN(300)
		kind := "lookup"
		var binLimit func() int
		var setLimit func(int)
		if r.IntN(2) == 0 {
			lp := strategy.NewLookupPartitionWithMetricRegistry("a", pct, 1, core.EmptyMetricRegistryInstance)
			st, err := strategy.NewLookupPartitionStrategyWithMetricRegistry(map[string]*strategy.LookupPartition{"a": lp}, nil, int32(total), core.EmptyMetricRegistryInstance)
			if err != nil {
				panic(err)
			}
			binLimit, setLimit = func() int { v, _ := st.BinLimit("a"); return v }, st.SetLimit
		} else {
			kind = "predicate"
			pp := strategy.NewPredicatePartitionWithMetricRegistry("a", pct, func(context.Context) bool { return true }, core.EmptyMetricRegistryInstance)
			st, err := strategy.NewPredicatePartitionStrategyWithMetricRegistry([]*strategy.PredicatePartition{pp}, int32(total), core.EmptyMetricRegistryInstance)
			if err != nil {
				panic(err)
			}
			binLimit, setLimit = func() int { v, _ := st.BinLimit(0); return v }, st.SetLimit
		}
		for step, tot := range []int{total, total2} {
			if step == 1 {
				setLimit(tot)
			}
			got := binLimit()
			f, e := accepted(tot, pct)
			rt.Count("decimal_share_checks", 1)
			if f != e {
				rt.Count("decimal_share_checks_with_two_admissible_roundings", 1)
			}
			if got != f && got != e {
				rt.Violation("C05/"+kind+"/partition-share-not-the-round-up-of-total-times-fraction", idx, rt.J{"fraction": pct, "total": tot, "share": got,
					"round_up_of_the_float_product": f, "round_up_of_the_exact_product": e, "after": []string{"construction", "SetLimit"}[step]})
				return
			}
		}
	}
	// a predicate partition that is taken out, misses a change of the total, and is put back (the very object the removal
	// returned): its share is the share of the total now in force
	for i := 0; i < 40; i++ {
		numA, numB := 1+r.IntN(12), 1+r.IntN(12)
		t1, t2 := 2+r.IntN(60), 2+r.IntN(60)
		keyed := func(k string) func(context.Context) bool {
			return func(ctx context.Context) bool { v, _ := ctx.Value(readdKey{}).(string); return v == k }
		}
		pa := strategy.NewPredicatePartitionWithMetricRegistry("a", float64(numA)/32, keyed("a"), core.EmptyMetricRegistryInstance)
		pb := strategy.NewPredicatePartitionWithMetricRegistry("b", float64(numB)/32, keyed("b"), core.EmptyMetricRegistryInstance)
		st, err := strategy.NewPredicatePartitionStrategyWithMetricRegistry([]*strategy.PredicatePartition{pa, pb}, int32(t1), core.EmptyMetricRegistryInstance)
		if err != nil {
			panic(err)
		}
		removed, _ := st.RemovePartitionsMatching(context.WithValue(context.Background(), readdKey{}, "b"))
		st.SetLimit(t2)
		if len(removed) != 1 || !st.AddPartition(removed[0]) {
			panic("c05: re-add refused")
		}
		got, _ := st.BinLimit(1)
		rt.Count("shares_of_partitions_put_back_after_a_limit_change", 1)
		if got != share(t2, numB) {
			rt.Violation("C05/predicate/partition-share-not-recomputed-from-estimate/partition-put-back-after-the-limit-changed", idx, rt.J{"fraction_of_32": numB,
				"total_when_removed": t1, "total_now": t2, "share": got, "want": share(t2, numB)})
			return
		}
	}
	rt.Distinct(fmt.Sprintf("dec|%d", idx))
}

type readdKey struct{}

func TestCheck(t *testing.T) {
	rt.Cases(2000, 400000, func(idx int64) {
		r := rt.CaseRand(5, idx)
		rt.Case()
		if idx%10 == 9 {
			addVsUpdate(idx, r)
			return
		}
		if idx%20 == 13 {
			defaultsCtorCase(idx, r)
			return
		}
		if idx%20 == 3 {
			decimalShares(idx, r)
			return
		}
		scenario(t, idx, r)
	})
}

// bubble runs f in a synctest bubble; a bubble that cannot end (goroutines left blocked) is recorded, not fatal.
func bubble(t *testing.T, f func(*testing.T)) {
	rt.Bubble(func() { synctest.Test(t, f) }, "C05")
}
