// C19 — pools: never more than the limit held at once, every queued caller eventually served.
package c19

import (
	"context"
	"fmt"
	"math/rand/v2"
	"runtime"
	"sort"
	"strings"
	"sync"
	"sync/atomic"
	"testing"
	"testing/synctest"
	"time"

	"github.com/platinummonkey/go-concurrency-limits/core"
	"github.com/platinummonkey/go-concurrency-limits/limit"
	"github.com/platinummonkey/go-concurrency-limits/limiter"
	"github.com/platinummonkey/go-concurrency-limits/patterns/pool"
	"github.com/platinummonkey/go-concurrency-limits/strategy"

	"verifharness/internal/inject"
	"verifharness/internal/rt"
)

func TestMain(m *testing.M) { rt.Main(m) }

type cfg struct {
	Pool     string        `json:"pool"`     // fixed | generic
	Ordering string        `json:"ordering"` // random | fifo | lifo
	Limit    int           `json:"limit"`
	Callers  int           `json:"callers"`
	Backlog  int           `json:"max_backlog"`
	Timeout  time.Duration `json:"timeout"`
	Simple   bool          `json:"generic_pool_over_simple_strategy"`
	Yields   int           `json:"yields_at_queue_points"`
	SmallWin bool          `json:"sample_window_of_10_completions"` // the limiter's sample window closes after 11 completions (any duration)
	Collide  bool          `json:"timeouts_collide_with_releases"`
	StratArg int           `json:"generic_pool_strategy_constructed_with"` // the number handed to the strategy's constructor (the limiter's limit governs)
	Overflow int           `json:"callers_beyond_limit_plus_backlog"`      // all callers arrive at once, this many more than limit + backlog: they (and only they) may be turned away
}

var orderings = map[string]pool.Ordering{"random": pool.OrderingRandom, "fifo": pool.OrderingFIFO, "lifo": pool.OrderingLIFO}

func build(c cfg) core.Limiter { return buildWith(c, nil) }

// buildWith builds the pool; wrap, if given, is put around the delegate of a generic pool (an instrumented delegate).
func buildWith(c cfg, wrap func(core.Limiter) core.Limiter) core.Limiter {
	if c.Pool == "fixed" {
		ws, minW, maxW, thr := -1, time.Duration(-1), time.Duration(-1), time.Duration(-1)
		if c.SmallWin {
			ws, minW, maxW, thr = 10, 1, 1, 0
		}
		p, err := pool.NewFixedPool("c19", orderings[c.Ordering], c.Limit, ws, minW, maxW, thr, c.Backlog, c.Timeout, nil, nil)
		if err != nil {
			panic(err)
		}
		return p
	}
	arg := c.Limit
	if c.StratArg > 0 {
		arg = c.StratArg // a placeholder: the limiter hands the strategy the limit algorithm's value
	}
	var st core.Strategy = strategy.NewPreciseStrategy(arg)
	if c.Simple {
		st = strategy.NewSimpleStrategy(arg)
	}
	minW, thr, ws := int64(1e9), int64(1e5), 100
	if c.SmallWin {
		minW, thr, ws = 1, 0, 10
	}
	dl, err := limiter.NewDefaultLimiter(limit.NewFixedLimit("c19", c.Limit, nil), minW, minW, thr, ws,
		st, limit.NoopLimitLogger{}, core.EmptyMetricRegistryInstance)
	if err != nil {
		panic(err)
	}
	var delegate core.Limiter = dl
	if wrap != nil {
		delegate = wrap(dl)
	}
	p, err := pool.NewPool(delegate, orderings[c.Ordering], c.Backlog, c.Timeout, nil, nil)
	if err != nil {
		panic(err)
	}
	return p
}

// setYields widens the queue limiter's check->push / push->select / hand-off windows and the simple strategy's
// check->add window with bounded yields (harmless where the code holds a lock across them).
func setYields(n int) {
	if n <= 0 {
		limiter.SetVerifHook(nil)
		strategy.SetVerifHook(nil)
		return
	}
	f := func(string) {
		for i := 0; i < n; i++ {
			runtime.Gosched()
		}
	}
	limiter.SetVerifHook(f)
	strategy.SetVerifHook(func(string) { runtime.Gosched() })
}

func genCfg(r *rand.Rand) cfg {
	c := cfg{Pool: []string{"fixed", "generic"}[r.IntN(2)], Ordering: []string{"random", "fifo", "lifo"}[r.IntN(3)], Limit: 1 + r.IntN(4)}
	c.Backlog = 1 + r.IntN(8)
	if r.IntN(5) == 0 {
		c.Backlog = 11 + r.IntN(14) // larger than the smallest sample window (10): the two numbers have nothing to do with each other
	}
	c.Callers = c.Limit + 1 + r.IntN(c.Backlog)
	if c.Backlog > 10 && r.IntN(2) == 0 {
		c.Callers = c.Limit + c.Backlog
	}
	c.Simple = c.Pool == "generic" && r.IntN(2) == 0
	c.Yields = []int{0, 100, 1500}[r.IntN(3)]
	c.SmallWin = r.IntN(2) == 0
	if c.Pool == "generic" && r.IntN(2) == 0 {
		c.StratArg = 1 + r.IntN(2*c.Limit+3)
	}
	return c
}

type caller struct {
	Arrive      time.Duration `json:"arrive"`
	Hold        time.Duration `json:"hold"`
	Outcome     int           `json:"outcome"`
	CancelAfter time.Duration `json:"cancel_after"` // < 0: never; otherwise the context is cancelled that long after arrival
	ok          bool
	granted     time.Duration
	done        atomic.Bool
}

func virtualCase(t *testing.T, idx int64, r *rand.Rand) {
	c := genCfg(r)
	cs := make([]*caller, c.Callers)
	var spread, maxHold time.Duration
	simultaneous := r.IntN(3) == 0
	cancels := 0
	for i := range cs {
		cs[i] = &caller{Arrive: time.Duration(r.IntN(20)) * time.Millisecond, Hold: time.Duration(r.IntN(30)) * time.Millisecond, Outcome: r.IntN(3), CancelAfter: -1}
		if simultaneous {
			cs[i].Arrive = 0
		}
		if r.IntN(4) == 0 {
			cs[i].Hold = 0
		}
		if r.IntN(4) == 0 { // gives up (or tries to) while possibly queued
			cs[i].CancelAfter = time.Duration(r.IntN(40)) * time.Millisecond
			cancels++
		}
		if cs[i].Arrive > spread {
			spread = cs[i].Arrive
		}
		if cs[i].Hold > maxHold {
			maxHold = cs[i].Hold
		}
	}
	// overflow variant: limit + backlog + k callers at the same instant - at most k of them are turned away (at once), and
	// the pool must work for the others and afterwards exactly as before
	if c.Ordering != "random" && r.IntN(6) == 0 {
		c.Overflow = 1 + r.IntN(3)
		c.Callers = c.Limit + c.Backlog + c.Overflow
		cs = cs[:0]
		spread, maxHold, cancels = 0, 0, 0
		for i := 0; i < c.Callers; i++ {
			cl := &caller{Arrive: 0, Hold: time.Duration(1+r.IntN(30)) * time.Millisecond, Outcome: r.IntN(3), CancelAfter: -1}
			cs = append(cs, cl)
			if cl.Hold > maxHold {
				maxHold = cl.Hold
			}
		}
	}
	// colliding variant: everybody arrives at once, every hold lasts H, the backlog timeout is H or 2H - time-outs of queued
	// callers fire at the very instants holders release (refusals are legitimate here; capacity must survive)
	c.Collide = c.Ordering != "random" && c.Overflow == 0 && r.IntN(4) == 0
	if c.Collide {
		h := time.Duration(1+r.IntN(20)) * time.Millisecond
		for _, cl := range cs {
			cl.Arrive, cl.Hold, cl.CancelAfter = 0, h, -1
		}
		spread, maxHold = 0, h
	}
	// longest possible wait: arrivals spread + everybody else's hold time
	longest := spread + time.Duration(c.Callers)*maxHold
	c.Timeout = 2*longest + time.Second
	if c.Collide {
		c.Timeout = maxHold * time.Duration(1+r.IntN(2))
	}
	if c.Ordering == "random" {
		// the blocking limiter's timeout is only a poll period: never a reason to refuse
		c.Timeout = []time.Duration{0, 7 * time.Millisecond, c.Timeout}[r.IntN(3)]
	}
	var holders, maxHolders atomic.Int64
	over := atomic.Bool{}
	var stuck []int
	lostCapacity := 0
	secondPhase := ""
	setYields(c.Yields)
	defer setYields(0)
	rt.Scenario(fmt.Sprintf("C19/%s-%s", c.Pool, c.Ordering), idx, c)
	defer rt.ScenarioDone()
	bubble(t, func(t *testing.T) {
		p := build(c)
		start := time.Now()
		var cancelAll []context.CancelFunc
		for _, cl := range cs {
			cl := cl
			ctx, cancel := context.WithCancel(context.Background())
			cancelAll = append(cancelAll, cancel)
			go func() {
				time.Sleep(cl.Arrive)
				if cl.CancelAfter >= 0 {
					go func() { time.Sleep(cl.CancelAfter); cancel() }()
				}
				l, ok := p.Acquire(ctx)
				cl.ok, cl.granted = ok && l != nil, time.Since(start)
				if cl.ok {
					h := holders.Add(1) // bracket: incremented after the grant returned, decremented before completion
					for {
						m := maxHolders.Load()
						if h <= m || maxHolders.CompareAndSwap(m, h) {
							break
						}
					}
					if h > int64(c.Limit) {
						over.Store(true)
					}
					time.Sleep(cl.Hold)
					holders.Add(-1)
					switch cl.Outcome {
					case 0:
						l.OnSuccess()
					case 1:
						l.OnIgnore()
					default:
						l.OnDropped()
					}
				}
				cl.done.Store(true)
			}()
		}
		// horizon: every holder has released by now; whoever is still inside Acquire is stuck with capacity free
		time.Sleep(longest + 500*time.Millisecond)
		synctest.Wait()
		for i, cl := range cs {
			if !cl.done.Load() {
				stuck = append(stuck, i)
			}
		}
		for _, cancel := range cancelAll {
			cancel()
		}
		synctest.Wait()
		time.Sleep(c.Timeout + time.Second)
		synctest.Wait()
		// everything completed: the pool must again hand out exactly its limit, at once
		if len(stuck) == 0 {
			var got []core.Listener
			for i := 0; i < c.Limit; i++ {
				ctx, cancel := context.WithTimeout(context.Background(), time.Millisecond)
				t0 := time.Now()
				l, ok := p.Acquire(ctx)
				cancel()
				if !ok || l == nil || time.Since(t0) != 0 {
					lostCapacity = c.Limit - i
					break
				}
				got = append(got, l)
			}
			// second phase on the used pool: with every unit held again one more caller (well within limit + backlog) has to
			// queue - not be turned away - and is served by the next release
			if lostCapacity == 0 && len(got) == c.Limit {
				var late atomic.Bool
				var lateOK bool
				var lateL core.Listener
				go func() {
					lateL, lateOK = p.Acquire(context.Background())
					late.Store(true)
				}()
				synctest.Wait()
				if late.Load() {
					secondPhase = "a caller arriving at the used, fully held pool was turned away at once instead of queueing"
				} else {
					got[0].OnSuccess()
					got = got[1:]
					synctest.Wait()
					if !late.Load() || !lateOK || lateL == nil {
						secondPhase = "a caller queued at the used pool was not served by the next release"
					}
				}
				if lateL != nil {
					got = append(got, lateL)
				}
				rt.Count("second_phase_probes", 1)
			}
			for _, l := range got {
				l.OnIgnore()
			}
			synctest.Wait()
		}
		if c.Ordering == "random" { // flush the blocking limiter's helper goroutines: one more grant/complete broadcasts
			if l, ok := p.Acquire(context.Background()); ok {
				l.OnIgnore()
			}
			synctest.Wait()
		}
	})
	rt.Count("virtual_scenarios", 1)
	rt.Count("virtual_callers", int64(len(cs)))
	rt.Count("virtual_callers_cancelling_while_queued", int64(cancels))
	rt.Max("max:holders_seen_vs_limit_delta", maxHolders.Load()-int64(c.Limit))
	name := fmt.Sprintf("%s-%s", c.Pool, c.Ordering)
	if over.Load() {
		rt.Violation("C19/"+name+"/more-holders-than-limit", idx, rt.J{"config": c, "max_holders": maxHolders.Load(), "callers": cs})
		return
	}
	if c.Collide {
		rt.Count("virtual_scenarios_with_colliding_timeouts", 1)
	}
	if c.Overflow > 0 {
		rt.Count("virtual_scenarios_with_more_callers_than_limit_plus_backlog", 1)
	}
	if secondPhase != "" {
		rt.Violation("C19/"+name+"/queued-caller-refused/second-phase-after-the-scenario", idx, rt.J{"config": c, "what": secondPhase, "callers": cs})
		return
	}
	if lostCapacity > 0 {
		rt.Violation("C19/"+name+"/pool-lost-capacity-after-every-token-completed", idx, rt.J{"config": c, "units_not_admitted_again": lostCapacity, "callers": cs})
		return
	}
	if len(stuck) > 0 {
		rt.Violation("C19/"+name+"/caller-still-blocked-after-every-holder-released", idx, rt.J{"config": c, "stuck_callers": stuck, "callers": cs})
		return
	}
	waited := 0
	turnedAway := 0
	for i, cl := range cs {
		mayBeRefused := cl.CancelAfter >= 0 || c.Collide // a caller that cancelled may legitimately be refused (or served: pools with a queue ignore cancellation)
		if !cl.ok && c.Overflow > 0 {
			turnedAway++
			if turnedAway > c.Overflow || cl.granted != cl.Arrive {
				rt.Violation("C19/"+name+"/queued-caller-refused/more-than-the-overflow-or-not-at-once", idx, rt.J{"config": c, "caller": i, "refused_so_far": turnedAway, "returned": cl.granted.String(), "callers": cs})
				return
			}
			continue
		}
		if !cl.ok && !mayBeRefused {
			rt.Violation("C19/"+name+"/queued-caller-refused", idx, rt.J{"config": c, "caller": i, "arrived": cl.Arrive.String(), "returned": cl.granted.String(), "callers": cs})
			return
		}
		if cl.ok && c.Ordering != "random" && cl.granted-cl.Arrive > c.Timeout {
			rt.Violation("C19/"+name+"/granted-later-than-timeout", idx, rt.J{"config": c, "caller": i, "waited": (cl.granted - cl.Arrive).String()})
			return
		}
		if cl.ok && cl.granted > cl.Arrive {
			waited++
		}
	}
	rt.Count("virtual_callers_that_had_to_wait", int64(waited))
	if maxHolders.Load() == int64(c.Limit) {
		rt.Count("virtual_scenarios_reaching_the_limit", 1)
	}
	if waited > 0 {
		rt.Distinct(fmt.Sprintf("v|%+v|%v", c, *cs[0]))
	}
	if rt.WantSample() && idx%37 == 2 {
		rt.Sample(rt.J{"mode": "virtual-time", "config": c, "callers_head": cs[:min(len(cs), 5)], "callers_that_waited": waited, "max_holders": maxHolders.Load()})
	}
}

// stressCase: real time, zero hold time, many iterations; a run that stops making progress with all workers inside
// Acquire and fewer holders than the limit is a stable stuck state (violation); any other overrun is inconclusive.
func stressCase(idx int64, r *rand.Rand) {
	c := genCfg(r)
	c.Timeout = time.Hour
	c.Callers = c.Limit + 1 + r.IntN(c.Backlog)
	iters := 300
	setYields(c.Yields / 10)
	defer setYields(0)
	var described fmt.Stringer
	p := buildWith(c, func(in core.Limiter) core.Limiter {
		described, _ = in.(fmt.Stringer)
		return in
	})
	stopReaders := make(chan struct{})
	defer close(stopReaders)
	if described != nil && r.IntN(2) == 0 {
		// somebody logs the pool's limiter while it is in use (String / %v): describing a limiter never gets in the way of
		// its callers
		for i := 0; i < 2; i++ {
			go func() {
				for {
					select {
					case <-stopReaders:
						return
					default:
					}
					if len(described.String()) == 0 {
						return
					}
				}
			}()
		}
		rt.Count("stress_runs_with_the_delegate_being_described", 1)
		iters = 1500
		if rt.Thorough() {
			iters = 600 // the thorough tier has 800 times as many of these runs
		}
	}
	var holders, maxHolders, progress, refused atomic.Int64
	var wg sync.WaitGroup
	for g := 0; g < c.Callers; g++ {
		wg.Add(1)
		go func(g int) {
			defer wg.Done()
			for i := 0; i < iters; i++ {
				l, ok := p.Acquire(context.Background())
				if !ok || l == nil {
					refused.Add(1)
					continue
				}
				h := holders.Add(1)
				for {
					m := maxHolders.Load()
					if h <= m || maxHolders.CompareAndSwap(m, h) {
						break
					}
				}
				if i%3 == 0 {
					runtime.Gosched()
				}
				holders.Add(-1)
				switch (g + i) % 3 {
				case 0:
					l.OnSuccess()
				case 1:
					l.OnIgnore()
				default:
					l.OnDropped()
				}
				progress.Add(1)
			}
		}(g)
	}
	done := make(chan struct{})
	go func() { wg.Wait(); close(done) }()
	name := fmt.Sprintf("%s-%s", c.Pool, c.Ordering)
	last, stable := int64(-1), 0
	for {
		select {
		case <-done:
			rt.Count("stress_runs", 1)
			rt.Count("stress_grants", progress.Load())
			if maxHolders.Load() > int64(c.Limit) {
				rt.Violation("C19/"+name+"/more-holders-than-limit", idx, rt.J{"config": c, "max_holders": maxHolders.Load(), "mode": "stress"})
				return
			}
			if refused.Load() > 0 {
				rt.Violation("C19/"+name+"/queued-caller-refused", idx, rt.J{"config": c, "refused": refused.Load(), "mode": "stress"})
				return
			}
			// every token has completed: the pool hands out its full limit again, at once (2 s is only ever waited for by a pool
			// that lost a unit)
			var again []core.Listener
			lost := 0
			for i := 0; i < c.Limit; i++ {
				ctx, cancel := context.WithTimeout(context.Background(), 2*time.Second)
				l, ok := p.Acquire(ctx)
				cancel()
				if !ok || l == nil {
					lost = c.Limit - i
					break
				}
				again = append(again, l)
			}
			for _, l := range again {
				l.OnIgnore()
			}
			rt.Count("stress_full_limit_probes", 1)
			if lost > 0 {
				rt.Violation("C19/"+name+"/pool-lost-capacity-after-every-token-completed", idx, rt.J{"config": c, "units_not_admitted_again": lost, "grants": progress.Load(), "mode": "stress"})
				return
			}
			rt.Distinct(fmt.Sprintf("s|%+v", c))
			return
		case <-time.After(3 * time.Second):
			cur := progress.Load()
			if cur == last {
				stable++
			} else {
				stable, last = 0, cur
			}
			if stable >= 2 {
				buf := make([]byte, 1<<20)
				st := string(buf[:runtime.Stack(buf, true)])
				inAcq := 0
				for _, b := range strings.Split(st, "\n\n") {
					if strings.Contains(b, "c19.stressCase.func") && (strings.Contains(b, ").Acquire(") || strings.Contains(b, ").OnSuccess(") || strings.Contains(b, ").OnIgnore(") || strings.Contains(b, ").OnDropped(")) {
						inAcq++ // a worker inside the pool
					}
				}
				if onMutex := rt.BlockedOnLibraryMutex(st); len(onMutex) > 0 && inAcq >= 1 {
					var frames []string
					for _, f := range onMutex {
						frames = append(frames, f)
					}
					sort.Strings(frames)
					rt.Violation("C19/"+name+"/deadlock-on-library-mutex/"+frames[0], idx, rt.J{"config": c, "holders": holders.Load(), "grants_so_far": cur,
						"workers_inside_the_pool": inAcq, "goroutines_waiting_for_a_library_mutex": frames, "mode": "stress", "stacks": st[:min(len(st), 6000)]})
					rt.Flush()
					panic("C19 stress: stuck")
				}
				if holders.Load() < int64(c.Limit) && inAcq >= 1 {
					rt.Violation("C19/"+name+"/callers-stuck-with-capacity-free", idx, rt.J{"config": c, "holders": holders.Load(),
						"grants_so_far": cur, "workers_alive": inAcq, "mode": "stress", "stacks": st[:min(len(st), 6000)]})
					rt.Flush()
					panic("C19 stress: stuck")
				}
				rt.Inconclusive("C19 stress run stopped progressing without a recognisable stuck state")
				return
			}
		}
	}
}

// releaseAtPoint: every unit is held; one caller arrives and, at a schedule point of its way into the backlog (verif
// points before / after the push; random pools: the subscribe helper before it takes the lock), the last holder to
// matter completes in another goroutine.  Whatever the overlap, the caller is served by that release: at quiescence
// it holds the unit.
func releaseAtPoint(t *testing.T, idx int64, r *rand.Rand) {
	c := genCfg(r)
	if idx%44 == 7 {
		c.Pool, c.Ordering = "generic", "random" // one in four: the points only an instrumented delegate can produce
	}
	c.Callers, c.Backlog, c.Timeout, c.Yields, c.SmallWin = c.Limit+1, 1+r.IntN(3), time.Hour, 0, false
	points := []string{"queue.before_push", "queue.after_push"}
	if c.Ordering == "random" {
		points = []string{"blocking.helper_before_lock"}
		if c.Pool == "generic" {
			// seen from the (instrumented) delegate of a generic pool: right after the caller's first / second refused attempt
			points = append(points, "after-refused-attempt-1", "after-refused-attempt-2", "slow-inner-release")
		}
		c.Timeout = 0
	}
	point := points[r.IntN(len(points))]
	if idx%44 == 7 {
		point = points[1+r.IntN(len(points)-1)]
	}
	yields := []int{200, 2000, 20000}[r.IntN(3)]
	var served, returned bool
	rt.Scenario(fmt.Sprintf("C19/%s-%s/release@%s", c.Pool, c.Ordering, point), idx, c)
	defer rt.ScenarioDone()
	bubble(t, func(t *testing.T) {
		var armed, fired atomic.Bool
		var held []core.Listener
		var callerGoID atomic.Int64
		refused := 0
		var slow atomic.Bool
		p := buildWith(c, func(in core.Limiter) core.Limiter {
			g := inject.NewGate(in)
			g.BeforeInnerRelease = func(string) {
				if slow.Load() { // a delegate whose listener takes its time to give the unit back
					time.Sleep(time.Millisecond)
				}
			}
			g.Hook = func(e inject.GateEvent) {
				if e.OK || !armed.Load() || e.GoID != callerGoID.Load() || !strings.HasPrefix(point, "after-refused-attempt-") {
					return
				}
				refused++
				if fmt.Sprintf("after-refused-attempt-%d", refused) == point && fired.CompareAndSwap(false, true) {
					var done atomic.Bool
					go func() { held[0].OnSuccess(); done.Store(true) }()
					for i := 0; i < yields && !done.Load(); i++ {
						runtime.Gosched()
					}
				}
			}
			return g
		})
		for i := 0; i < c.Limit; i++ {
			l, ok := p.Acquire(context.Background())
			if !ok {
				panic("c19: unit refused")
			}
			held = append(held, l)
		}
		limiter.SetVerifHook(func(name string) {
			if name == point && armed.Load() && fired.CompareAndSwap(false, true) {
				var done atomic.Bool
				go func() { held[0].OnSuccess(); done.Store(true) }()
				for i := 0; i < yields && !done.Load(); i++ {
					runtime.Gosched()
				}
			}
		})
		defer limiter.SetVerifHook(nil)
		armed.Store(true)
		var l core.Listener
		var ok bool
		var done atomic.Bool
		go func() { callerGoID.Store(inject.GoID()); l, ok = p.Acquire(context.Background()); done.Store(true) }()
		synctest.Wait()
		armed.Store(false)
		if point == "slow-inner-release" {
			// the caller is parked; the holder completes through a delegate listener that is slow to return the unit: the
			// caller is served once the unit is really back, however early it was told to look
			slow.Store(true)
			held[0].OnSuccess()
			slow.Store(false)
			fired.Store(true)
			synctest.Wait()
		}
		if !fired.Load() { // point not on this path (it is, for every pool kind): release the plain way
			held[0].OnSuccess()
			synctest.Wait()
		}
		returned, served = done.Load(), done.Load() && ok && l != nil
		// clean up: complete everything (a stranded caller is served by the next release)
		for _, h := range held[1:] {
			h.OnSuccess()
		}
		synctest.Wait()
		if done.Load() && ok && l != nil {
			l.OnSuccess()
		}
		synctest.Wait()
		if c.Ordering == "random" {
			if l2, ok2 := p.Acquire(context.Background()); ok2 {
				l2.OnIgnore()
			}
			synctest.Wait()
		}
	})
	rt.Count("release_at_point_cases/"+point, 1)
	if !served {
		rt.Violation(fmt.Sprintf("C19/%s-%s/caller-not-served-by-a-release-landing-at-%s", c.Pool, c.Ordering, point), idx, rt.J{"config": c, "acquire_returned": returned, "pause_yields": yields})
		return
	}
	rt.Distinct(fmt.Sprintf("rap|%s|%s|%d|%s|%d", c.Pool, c.Ordering, c.Limit, point, yields))
}

// cancelledAtTheGrant: a generic pool (any ordering) over an instrumented delegate, every unit held, one caller parked.
// A holder completes; at the very moment the delegate grants the unit for the parked caller, that caller's context is
// cancelled.  The caller may come back with the token or without it - either way nothing is lost: once everything has
// completed the pool hands out its full limit at once.
func cancelledAtTheGrant(t *testing.T, idx int64, r *rand.Rand) {
	c := genCfg(r)
	c.Pool = "generic"
	c.Callers, c.Backlog, c.Timeout, c.Yields, c.SmallWin = c.Limit+1, 1+r.IntN(3), time.Hour, 0, false
	if c.Ordering == "random" {
		c.Timeout = 0
	}
	lost, granted := -1, false
	rt.Scenario(fmt.Sprintf("C19/%s-%s/cancelled-at-the-grant", c.Pool, c.Ordering), idx, c)
	defer rt.ScenarioDone()
	bubble(t, func(t *testing.T) {
		var armed atomic.Bool
		ctx, cancel := context.WithCancel(inject.WithCaller(context.Background(), 77))
		defer cancel()
		p := buildWith(c, func(in core.Limiter) core.Limiter {
			g := inject.NewGate(in)
			g.Hook = func(e inject.GateEvent) {
				if e.OK && e.Caller == 77 && armed.CompareAndSwap(true, false) {
					cancel()
					for i := 0; i < 200; i++ {
						runtime.Gosched()
					}
				}
			}
			return g
		})
		var held []core.Listener
		for i := 0; i < c.Limit; i++ {
			l, ok := p.Acquire(context.Background())
			if !ok {
				panic("c19: unit refused")
			}
			held = append(held, l)
		}
		var l core.Listener
		var ok bool
		var done atomic.Bool
		go func() { l, ok = p.Acquire(ctx); done.Store(true) }()
		synctest.Wait()
		armed.Store(true)
		held[0].OnSuccess()
		synctest.Wait()
		granted = done.Load() && ok && l != nil
		if granted {
			l.OnSuccess()
		}
		for _, h := range held[1:] {
			h.OnSuccess()
		}
		synctest.Wait()
		lost = 0
		var again []core.Listener
		for i := 0; i < c.Limit; i++ {
			pctx, pcancel := context.WithTimeout(context.Background(), 2*time.Second)
			pl, pok := p.Acquire(pctx)
			pcancel()
			if !pok || pl == nil {
				lost = c.Limit - i
				break
			}
			again = append(again, pl)
		}
		for _, pl := range again {
			pl.OnIgnore()
		}
		synctest.Wait()
	})
	rt.Count("cancelled_at_the_grant_cases", 1)
	if lost != 0 {
		rt.Violation(fmt.Sprintf("C19/%s-%s/pool-lost-capacity-after-every-token-completed/cancelled-at-the-grant", c.Pool, c.Ordering), idx, rt.J{"config": c, "units_lost": lost,
			"cancelled_caller_came_back_with_the_token": granted})
		return
	}
	rt.Distinct(fmt.Sprintf("catg|%s|%d|%v", c.Ordering, c.Limit, granted))
}

// twoReleasesTwoParked: a generic pool over the simple strategy, every unit held, two callers parked.  One holder
// completes; while the hand-off for the first parked caller is inside the strategy (verif point between its check and
// its add) a second holder completes in another goroutine.  Two units were released: both parked callers are served.
func twoReleasesTwoParked(t *testing.T, idx int64, r *rand.Rand) {
	c := genCfg(r)
	c.Pool, c.Simple, c.StratArg = "generic", true, 0
	if c.Ordering == "random" {
		c.Ordering = []string{"fifo", "lifo"}[r.IntN(2)]
	}
	if c.Limit < 2 {
		c.Limit = 2
	}
	c.Callers, c.Backlog, c.Timeout, c.Yields, c.SmallWin = c.Limit+2, 4, time.Hour, 0, false
	yields := []int{200, 2000}[r.IntN(2)]
	served := 0
	rt.Scenario(fmt.Sprintf("C19/%s-%s/two-releases-two-parked", c.Pool, c.Ordering), idx, c)
	defer rt.ScenarioDone()
	bubble(t, func(t *testing.T) {
		p := build(c)
		var held []core.Listener
		for i := 0; i < c.Limit; i++ {
			l, ok := p.Acquire(context.Background())
			if !ok {
				panic("c19: unit refused")
			}
			held = append(held, l)
		}
		type wt struct {
			done atomic.Bool
			ok   bool
			l    core.Listener
		}
		ws := []*wt{{}, {}}
		for _, w := range ws {
			go func() { w.l, w.ok = p.Acquire(context.Background()); w.done.Store(true) }()
			synctest.Wait()
			time.Sleep(time.Millisecond)
		}
		var armed, fired atomic.Bool
		strategy.SetVerifHook(func(name string) {
			if name == "simple.between_check_and_add" && armed.Load() && fired.CompareAndSwap(false, true) {
				var done atomic.Bool
				go func() { held[1].OnSuccess(); done.Store(true) }()
				for i := 0; i < yields && !done.Load(); i++ {
					runtime.Gosched()
				}
			}
		})
		defer strategy.SetVerifHook(nil)
		armed.Store(true)
		held[0].OnSuccess()
		synctest.Wait()
		armed.Store(false)
		if !fired.Load() {
			held[1].OnSuccess()
			synctest.Wait()
		}
		for _, w := range ws {
			if w.done.Load() && w.ok && w.l != nil {
				served++
			}
		}
		for _, h := range held[2:] {
			h.OnSuccess()
		}
		for round := 0; round < 4; round++ {
			synctest.Wait()
			for _, w := range ws {
				if w.done.Load() && w.ok && w.l != nil {
					w.l.OnSuccess()
					w.l = nil
				}
			}
		}
		synctest.Wait()
	})
	rt.Count("two_releases_two_parked_cases", 1)
	if served != 2 {
		rt.Violation(fmt.Sprintf("C19/%s-%s/two-releases-served-%d-of-two-parked-callers", c.Pool, c.Ordering, served), idx, rt.J{"config": c, "pause_yields": yields})
		return
	}
	rt.Distinct(fmt.Sprintf("2r2p|%s|%d|%d", c.Ordering, c.Limit, yields))
}

func TestCheck(t *testing.T) {
	rt.Cases(1650, 1320000, func(idx int64) {
		r := rt.CaseRand(19, idx)
		rt.Case()
		if idx%55 == 54 {
			stressCase(idx, r)
		} else if idx%11 == 7 {
			releaseAtPoint(t, idx, r)
		} else if idx%22 == 3 {
			twoReleasesTwoParked(t, idx, r)
		} else if idx%22 == 14 {
			cancelledAtTheGrant(t, idx, r)
		} else {
			virtualCase(t, idx, r)
		}
	})
}

// bubble runs f in a synctest bubble; a bubble that cannot end (goroutines left blocked) is recorded, not fatal.
func bubble(t *testing.T, f func(*testing.T)) {
	rt.Bubble(func() { synctest.Test(t, f) }, "C19")
}
