// C04 — the estimate stays a finite in-bounds integer; samples never panic.
// Oracle: bounds + recover() after every OnSample over hostile sample sequences, each algorithm alone and
// wrapped by the windowed / traced limit.
package c04

import (
	"fmt"
	"math"
	"math/rand/v2"
	"runtime/debug"
	"sync"
	"testing"

	"github.com/platinummonkey/go-concurrency-limits/core"
	"github.com/platinummonkey/go-concurrency-limits/limit"

	"verifharness/internal/limgen"
	"verifharness/internal/rt"
)

func TestMain(m *testing.M) { rt.Main(m) }

var wrappers = []string{"bare", "bare", "windowed", "traced", "traced+windowed"}

func wrap(w string, l core.Limit, r *rand.Rand) (core.Limit, string) {
	cfg := ""
	mkWin := func(d core.Limit) core.Limit {
		minW := int64(1e8) * int64(1+r.IntN(5))
		maxW := minW * int64(1+r.IntN(4))
		size := int32(10 + r.IntN(20))
		thr := []int64{0, 1, 1000, 1e6}[r.IntN(4)]
		cfg = fmt.Sprintf("minWindow=%d maxWindow=%d windowSize=%d minRTTThreshold=%d", minW, maxW, size, thr)
		wl, err := limit.NewWindowedLimit("w", minW, maxW, size, thr, d, nil)
		if err != nil {
			panic(err)
		}
		return wl
	}
	// the logger argument is optional everywhere in the package (nil = no logging)
	var lg limit.Logger = limit.NoopLimitLogger{}
	if (w == "traced" || w == "traced+windowed") && r.IntN(4) == 0 {
		lg = nil
		rt.Count("traced_wrappers_built_without_a_logger", 1)
	}
	switch w {
	case "windowed":
		return mkWin(l), cfg
	case "traced":
		return limit.NewTracedLimit(l, lg), cfg + " logger=" + fmt.Sprint(lg != nil)
	case "traced+windowed":
		return limit.NewTracedLimit(mkWin(l), lg), cfg + " logger=" + fmt.Sprint(lg != nil)
	}
	return l, cfg
}

func onSample(l core.Limit, s limgen.Sample) (panicked any, stack string) {
	defer func() {
		if p := recover(); p != nil {
			panicked, stack = p, string(debug.Stack())
		}
	}()
	l.OnSample(s.Start, s.RTT, s.InFlight, s.Drop)
	return nil, ""
}

func class(s limgen.Sample) string {
	c := "rtt>0"
	if s.RTT == 0 {
		c = "rtt=0"
	}
	if s.Drop {
		c += ",drop"
	}
	return c
}

// sideBySide: several Vegas limits in one process, each sampled by its own goroutine, every sample a probe (initial =
// max = 1, probe multiplier 1).  Limits are independent objects: whatever they draw their probe jitter from, no sample
// panics.  (A panic kills this process; the driver reports it as a library panic under this property.)
func sideBySide(idx int64, r *rand.Rand) {
	n := 4 + r.IntN(9)
	var wg sync.WaitGroup
	for g := 0; g < n; g++ {
		wg.Add(1)
		l := limit.NewVegasLimitWithRegistry("c04", 1, nil, 1, 1, nil, nil, nil, nil, nil, 1, nil, nil)
		go func() {
			defer wg.Done()
			for i := 0; i < 4000; i++ {
				l.OnSample(0, int64(1000+i%7), 1, i%11 == 0)
				if e := l.EstimatedLimit(); e != 1 {
					rt.Violation("C04/vegas/bare/estimate-out-of-bounds/side-by-side", idx, rt.J{"estimate": e})
					return
				}
			}
		}()
	}
	wg.Wait()
	rt.Count("side_by_side_vegas_probe_samples", int64(n*4000))
}

func TestCheck(t *testing.T) {
	if limgen.LargeTables() {
		rt.Count("shards_started_with_enlarged_lookup_tables", 1)
	}
	rt.Cases(20000, 3000000, func(idx int64) {
		r := rt.CaseRand(4, idx)
		rt.Case()
		if idx%400 == 77 {
			sideBySide(idx, r)
			return
		}
		kind := limgen.Kinds[r.IntN(4)]
		spec := limgen.Gen(r, kind, limgen.Opts{NoProbe: true})
		spec.Debug = r.IntN(5) == 0 // a debug-enabled logger must not change behaviour
		if (kind == "vegas" || kind == "gradient") && spec.Initial <= 1000 && r.IntN(10) == 0 {
			spec = spec.WithDefaultMax([]string{"0", "-1"}[r.IntN(2)]) // "give me the default" maximum
			rt.Count("cases_asking_for_the_default_maximum", 1)
		}
		if kind != "aimd" && r.IntN(12) == 0 {
			spec.Smoothing = []float64{1.5, 2.5, -1, 1.0000001}[r.IntN(4)] // out of range: the constructors fall back to their documented default
			rt.Count("cases_with_out_of_range_smoothing", 1)
		}
		if kind == "vegas" && r.IntN(4) == 0 {
			spec.Funcs = limgen.VegasFuncs[r.IntN(len(limgen.VegasFuncs))] // caller-supplied step / threshold functions
			rt.Count("vegas_cases_with_caller_supplied_functions", 1)
		}
		if (kind == "gradient" || kind == "gradient2") && r.IntN(6) == 0 {
			// "give me the default" minimum (0) together with a queue allowance that is 0 for small limits: the
			// minimum is then the only thing that keeps the estimate at or above 1
			spec.Min = 0
			spec.QueueKind, spec.QueueArg = []string{"fixed", "tenth"}[r.IntN(2)], 0
			smallMax := false
			if kind == "gradient2" && r.IntN(3) == 0 {
				// a maximum below Gradient2's default minimum (4) with the minimum left to default: the constructor may
				// refuse that; if it hands out an instance, the instance honours the maximum the caller did configure
				spec.Max = 1 + r.IntN(3)
				spec.Initial = 1 + r.IntN(spec.Max)
				smallMax = true
				rt.Count("gradient2_cases_maximum_below_the_default_minimum", 1)
			}
			if kind == "gradient2" && spec.Max < 4 && !smallMax {
				spec.Max = 4 // Gradient2's default minimum
			}
			rt.Count("cases_default_minimum_and_zero_queue_allowance", 1)
		}
		inner, cerr := spec.TryNew(nil, "c04")
		if cerr != nil {
			rt.Count("configurations_the_constructor_refused", 1)
			return
		}
		w := wrappers[r.IntN(len(wrappers))]
		l, wcfg := wrap(w, inner, r)
		lo, hi := spec.LowerBound(), spec.Ceil()
		n := 50 + r.IntN(350)
		var hist []limgen.Sample
		maxIF := 0
		now := int64(1e12)
		pDrop := []float64{0, 0.05, 0.5, 1}[r.IntN(4)]
		hostile := r.IntN(4) != 0
		base := int64(1) << uint(r.IntN(30))
		sawZero, sawDropOnly, changes := false, 0, 0
		sawOverload := false
		prev := l.EstimatedLimit()
		overload, stairRTT := 0, int64(1000)
		for i := 0; i < n; i++ {
			if r.IntN(40) == 0 { // new phase
				pDrop = []float64{0, 0.05, 0.5, 1}[r.IntN(4)]
				hostile = r.IntN(4) != 0
				if r.IntN(3) == 0 && n < 900 { // sustained overload: saturated, the latency climbs a staircase (x4 every ~25 samples)
					overload, stairRTT = 100+r.IntN(200), 1000+r.Int64N(100000)
					n += overload
				}
			}
			est := l.EstimatedLimit()
			var s limgen.Sample
			if overload > 0 {
				overload--
				if overload%25 == 0 && stairRTT < 1<<55 {
					stairRTT *= 4
				}
				s = limgen.Sample{RTT: stairRTT + r.Int64N(stairRTT/8+1), InFlight: est + r.IntN(3)}
				sawOverload = true
			} else if hostile {
				s = limgen.Hostile(r, est, limgen.Baseline(inner), pDrop)
			} else {
				s = limgen.Benign(r, est, base, pDrop)
			}
			if w != "bare" && w != "traced" && r.IntN(2) == 0 && s.InFlight < 64 {
				s.InFlight += 11 + r.IntN(30) // make windows ready
			}
			now += r.Int64N(3e8)
			s.Start = now
			if s.RTT == 0 {
				sawZero = true
			}
			if pDrop == 1 {
				sawDropOnly++
			}
			if s.InFlight > maxIF {
				maxIF = s.InFlight
			}
			hist = append(hist, s)
			p, stack := onSample(l, s)
			rt.Count("samples", 1)
			tail := hist
			if len(tail) > 25 {
				tail = tail[len(tail)-25:]
			}
			if p != nil {
				rt.Violation(fmt.Sprintf("C04/%s/%s/panic", kind, w), idx, rt.J{"spec": spec, "wrapper_cfg": wcfg,
					"sample_index": i, "sample_class": class(s), "panic": fmt.Sprint(p), "stack": stack, "last_samples": tail})
				return
			}
			got := l.EstimatedLimit()
			if got != prev {
				changes++
				prev = got
			}
			upper := hi
			if kind == "aimd" {
				upper = spec.Initial
				if maxIF+spec.IncBy > upper {
					upper = maxIF + spec.IncBy
				}
			}
			if got < lo || got > upper {
				what := "estimate-above-ceiling"
				if got < lo {
					what = "estimate-below-floor"
				}
				if got == math.MinInt64 || got == math.MinInt {
					what = "estimate-not-a-number"
				}
				rt.Violation(fmt.Sprintf("C04/%s/%s/%s", kind, w, what), idx, rt.J{"spec": spec, "wrapper_cfg": wcfg,
					"sample_index": i, "estimate": got, "bounds": []int{lo, upper}, "last_samples": tail})
				return
			}
		}
		if changes > 0 {
			rt.Distinct(fmt.Sprintf("%+v|%s|%s|%d|%v", spec, w, wcfg, n, hist[0]))
		}
		rt.Count("cases/"+kind+"/"+w, 1)
		if sawZero {
			rt.Count("cases_with_rtt_zero", 1)
		}
		if sawOverload {
			rt.Count("cases_with_sustained_overload_phase", 1)
		}
		if sawDropOnly > 20 {
			rt.Count("cases_with_drop_only_phase", 1)
		}
		rt.Count("estimate_changes", int64(changes))
		if rt.WantSample() && idx%97 == 0 {
			rt.Sample(rt.J{"spec": spec, "wrapper": w, "wrapper_cfg": wcfg, "samples": n, "first_samples": hist[:6], "estimate_changes": changes, "final_estimate": prev})
		}
	})
}
