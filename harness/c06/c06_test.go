// C06 — loss response: a drop never raises the limit; AIMD follows its exact rule; sustained drops reach the
// floor within a bound derived from the configuration (bounded-progress form of the liveness clause).
package c06

import (
	"fmt"
	"math"
	"math/big"
	"math/rand/v2"
	"runtime"
	"sync"
	"sync/atomic"
	"testing"
	"time"

	"github.com/platinummonkey/go-concurrency-limits/core"
	"github.com/platinummonkey/go-concurrency-limits/limit"

	"verifharness/internal/limgen"
	"verifharness/internal/lin"
	"verifharness/internal/rt"
)

func TestMain(m *testing.M) { rt.Main(m) }

var kinds = []string{"aimd", "vegas", "gradient"}

func prefix(r *rand.Rand, l core.Limit, n int) []limgen.Sample {
	var hist []limgen.Sample
	base := int64(1) << uint(4+r.IntN(24))
	hostile := r.IntN(3) == 0
	for i := 0; i < n; i++ {
		var s limgen.Sample
		if hostile {
			s = limgen.Hostile(r, l.EstimatedLimit(), limgen.Baseline(l), 0.1)
		} else {
			s = limgen.Benign(r, l.EstimatedLimit(), base, 0.05)
		}
		l.OnSample(0, s.RTT, s.InFlight, s.Drop)
		hist = append(hist, s)
	}
	return hist
}

func tail(h []limgen.Sample, n int) []limgen.Sample {
	if len(h) > n {
		return h[len(h)-n:]
	}
	return h
}

// aimdExpected returns the admissible results of max(1, min(limit-1, floor(limit x ratio))): the floor of the
// exact rational product and the floor of the float product (they differ only when rounding crosses an integer).
func aimdExpected(limit int, ratio float64) (int, int) {
	rr := new(big.Rat).SetFloat64(ratio)
	prod := new(big.Rat).Mul(rr, big.NewRat(int64(limit), 1))
	fl := new(big.Int).Div(prod.Num(), prod.Denom())
	a := int(fl.Int64())
	b := int(math.Floor(float64(limit) * ratio))
	f := func(x int) int {
		if x > limit-1 {
			x = limit - 1
		}
		if x < 1 {
			x = 1
		}
		return x
	}
	return f(a), f(b)
}

func singleDrop(idx int64, r *rand.Rand) {
	kind := kinds[r.IntN(3)]
	spec := limgen.Gen(r, kind, limgen.Opts{NoProbe: true})
	if kind == "vegas" && r.IntN(4) == 0 {
		spec.Funcs = limgen.VegasFuncs[r.IntN(len(limgen.VegasFuncs))]
		rt.Count("vegas_cases_with_caller_supplied_functions", 1)
	}
	l := spec.New(nil, "c06")
	hist := prefix(r, l, r.IntN(150))
	raised := false
	for k := 0; k < 1+r.IntN(4); k++ {
		before := l.EstimatedLimit()
		s := limgen.Hostile(r, before, limgen.Baseline(l), 1)
		s.Drop = true
		l.OnSample(0, s.RTT, s.InFlight, true)
		after := l.EstimatedLimit()
		hist = append(hist, s)
		rt.Count("single_drop_samples", 1)
		if after < before {
			rt.Count("single_drop_lowered", 1)
			raised = true
		}
		if after > before {
			rt.Violation("C06/"+kind+"/drop-raised-estimate", idx, rt.J{"spec": spec, "before": before, "after": after,
				"drop_sample": s, "history_tail": tail(hist, 20), "history_len": len(hist)})
			return
		}
		if kind == "aimd" {
			e1, e2 := aimdExpected(before, spec.Backoff)
			if after != e1 && after != e2 {
				rt.Violation("C06/aimd/not-exact-multiplicative-decrease", idx, rt.J{"spec": spec, "before": before, "after": after,
					"expected": []int{e1, e2}, "drop_sample": s})
				return
			}
			rt.Count("aimd_exact_rule_checks", 1)
		}
	}
	if raised {
		rt.Distinct(fmt.Sprintf("single|%+v|%d|%v", spec, len(hist), hist[len(hist)-1]))
	}
}

func bound(spec limgen.Spec, e0 int) int {
	floor := spec.Floor()
	switch spec.Kind {
	case "aimd":
		return e0 + 1
	case "vegas":
		return int(math.Ceil(float64(e0-1)/spec.Smoothing)) + 3
	default:
		if e0+1 <= floor {
			return 3
		}
		return int(math.Ceil(math.Log(float64(e0+1)/float64(floor))/-math.Log(1-spec.Smoothing/2))) + 4
	}
}

func sustained(idx int64, r *rand.Rand) {
	kind := kinds[r.IntN(3)]
	spec := limgen.Gen(r, kind, limgen.Opts{Bounded: true})
	if kind == "vegas" && r.IntN(4) == 0 {
		spec.Funcs = limgen.VegasFuncs[r.IntN(len(limgen.VegasFuncs))] // every one of them steps down by at least 1 per drop
		rt.Count("vegas_cases_with_caller_supplied_functions", 1)
	}
	if (kind == "vegas" || kind == "gradient") && r.IntN(8) == 0 {
		spec = spec.WithDefaultMax([]string{"0", "-1"}[r.IntN(2)]) // "give me the default" maximum: the configured minimum still holds
		rt.Count("cases_asking_for_the_default_maximum", 1)
	}
	if kind == "vegas" && r.IntN(5) == 0 {
		// a caller-supplied baseline measurement (constructor argument) that keeps the latest value it was given: a
		// sample not below the baseline is still applied, whatever the measurement's Add would report
		spec.NoLoad = "single"
		rt.Count("vegas_cases_with_caller_supplied_baseline_measurement", 1)
	}
	l := spec.New(nil, "c06")
	hist := prefix(r, l, r.IntN(120))
	e0 := l.EstimatedLimit()
	floor := spec.Floor()
	B := bound(spec, e0)
	capTotal := 50*B + 200
	// unique, strictly increasing RTTs make a probe observable as a change of the baseline - but only while they are
	// exactly representable as float64 (the algorithms convert), so the run starts from a small value whatever the
	// baseline left by the prefix is (a first sample below the baseline merely lowers it and is not "effective")
	rtt := 1000 + r.Int64N(1000000)
	if kind == "gradient" && r.IntN(8) == 0 {
		// "any rtt": a wall clock that stepped back yields negative durations - a drop is a drop whatever it measured
		rtt = -1000000 - r.Int64N(1000000)
		rt.Count("gradient_sustained_runs_with_negative_rtts", 1)
	}
	zeroRTT := kind == "vegas" && spec.NoLoad == "" && r.IntN(8) == 0
	if zeroRTT {
		// "any rtt": a run of drops that all measured 0 ns - what a drop-only window of the windowed limit hands on during a
		// total outage.  A drop is a drop: apart from probes, every one of them lowers the estimate until the floor.
		rt.Count("vegas_sustained_runs_of_drops_at_rtt_zero", 1)
	}
	eff, total, extra := 0, 0, 0
	for total < capTotal {
		before := l.EstimatedLimit()
		nlBefore := limgen.Baseline(l)
		s := limgen.Sample{RTT: rtt, InFlight: r.IntN(2*before + 2), Drop: true}
		if zeroRTT {
			s.RTT = 0
		}
		if r.IntN(3) == 0 {
			s.InFlight = before
		}
		rtt += 1 + r.Int64N(3) // unique, strictly increasing RTTs: a probe is observable as a change of the baseline
		l.OnSample(0, s.RTT, s.InFlight, true)
		after := l.EstimatedLimit()
		nlAfter := limgen.Baseline(l)
		hist = append(hist, s)
		total++
		rt.Count("sustained_drop_samples", 1)
		effective := true
		switch kind {
		case "vegas":
			effective = nlBefore != 0 && nlAfter == nlBefore
			if zeroRTT {
				effective = true // probes cannot be told apart here (the baseline stays unset); they are paid for in the bound
			}
		case "gradient":
			effective = nlAfter != 0
		}
		if effective {
			eff++
		} else {
			rt.Count("probe_or_baseline_samples_observed", 1)
		}
		if after > before {
			rt.Violation("C06/"+kind+"/drop-raised-estimate", idx, rt.J{"spec": spec, "before": before, "after": after,
				"drop_sample": s, "phase": "sustained", "history_tail": tail(hist, 20)})
			return
		}
		if kind == "vegas" && total-eff > total/2+4 {
			// the RTTs rise strictly, so after the first sample none is below the baseline; what is left to be "not
			// effective" are probes, and those are at least two samples apart (jitter >= 0.5, multiplier >= 5, limit >= 1)
			rt.Violation("C06/vegas/drops-not-below-the-baseline-left-unapplied", idx, rt.J{"spec": spec, "drop_samples": total,
				"applied": eff, "estimate": after, "history_tail": tail(hist, 12)})
			return
		}
		if after < floor {
			rt.Violation("C06/"+kind+"/below-floor", idx, rt.J{"spec": spec, "estimate": after, "floor": floor, "history_tail": tail(hist, 20)})
			return
		}
		if after == floor {
			extra++
			if extra > 6 {
				break
			}
			continue
		}
		limitB := B
		if zeroRTT {
			limitB = 2*B + 8 // at most every second sample of the run can have been a probe
		}
		if eff > limitB {
			rt.Violation("C06/"+kind+"/floor-not-reached-within-bound", idx, rt.J{"spec": spec, "start_estimate": e0, "estimate": after,
				"floor": floor, "effective_drop_samples": eff, "bound": B, "history_tail": tail(hist, 12)})
			return
		}
	}
	if extra == 0 {
		rt.Inconclusive("C06 cap reached before the bound of effective samples (" + kind + ")")
		return
	}
	rt.Count("floor_reached/"+kind, 1)
	rt.Max("max:effective_samples_to_floor", int64(eff))
	if e0 > floor {
		rt.Distinct(fmt.Sprintf("sustained|%+v|%d|%d", spec, e0, len(hist)))
	}
	if rt.WantSample() && idx%101 == 1 {
		rt.Sample(rt.J{"mode": "sustained-drops", "spec": spec, "start_estimate": e0, "floor": floor, "bound_effective_samples": B,
			"effective_samples_used": eff, "total_samples": total})
	}
}

// concurrentDrops: N drop samples delivered to one AIMD limit at the same moment.  Each drop must apply the exact rule
// once (the result is the N-fold application, whatever the order) and no notification may report a rise.
func concurrentDrops(idx int64, r *rand.Rand) {
	l0 := 20 + r.IntN(2000)
	ratio := float64(1+r.IntN(31)) / 32
	l := limit.NewAIMDLimit("c06", l0, ratio, 1, nil)
	var mu sync.Mutex
	var seen []int
	l.NotifyOnChange(func(v int) { mu.Lock(); seen = append(seen, v); mu.Unlock() })
	n := 2 + r.IntN(7)
	bar := lin.NewBarrier(n)
	var wg sync.WaitGroup
	for g := 0; g < n; g++ {
		wg.Add(1)
		go func(g int) {
			defer wg.Done()
			bar.Wait()
			l.OnSample(0, 1000, g, true)
		}(g)
	}
	wg.Wait()
	want := l0
	for i := 0; i < n; i++ {
		want, _ = aimdExpected(want, ratio)
	}
	rt.Count("concurrent_drop_rounds", 1)
	if got := l.EstimatedLimit(); got != want {
		rt.Violation("C06/aimd/concurrent-drops-not-each-applied-exactly-once", idx, rt.J{"start": l0, "ratio": ratio, "drops": n, "final": got, "want": want, "notified": seen})
		return
	}
	for i := 1; i < len(seen); i++ {
		if seen[i] > seen[i-1] {
			rt.Violation("C06/aimd/drop-raised-estimate/concurrent", idx, rt.J{"start": l0, "ratio": ratio, "drops": n, "notified": seen})
			return
		}
	}
	rt.Distinct(fmt.Sprintf("conc|%d|%g|%d", l0, ratio, n))
}

// concurrentDropsAdaptive: several goroutines deliver only drop samples to one Vegas / Gradient limit at
// the same time.  The user-supplied queue allowance function (Gradient) is a collaborator the harness may
// make slow: it yields.  Whatever the interleaving, the values reported to a change listener (called by the
// algorithm in application order, under its own lock) never rise, and the run ends at or below where it started;
// enough drops reach the floor.
func concurrentDropsAdaptive(idx int64, r *rand.Rand) {
	kind := []string{"vegas", "gradient"}[r.IntN(2)] // Gradient2 does not look at the drop flag (outside this property)
	spec := limgen.Gen(r, kind, limgen.Opts{Bounded: true})
	if kind != "vegas" {
		spec.QueueKind, spec.QueueArg = "sqrt", 1+r.IntN(6)
		spec.Max = 400 + r.IntN(2000)
		spec.Initial = spec.Max - r.IntN(100)
		if spec.Min > 20 {
			spec.Min = 1 + r.IntN(20)
		}
	}
	if kind == "gradient" {
		spec.ProbeInt = limit.ProbeDisabled
	}
	var l core.Limit
	q := spec.Queue()
	var qcalls atomic.Int64
	slowQ := func(v int) int {
		out := q(v)
		if qcalls.Add(1)%3 == 0 {
			time.Sleep(20 * time.Microsecond)
		} else {
			runtime.Gosched()
		}
		return out
	}
	switch kind {
	case "gradient":
		l = limit.NewGradientLimitWithRegistry("c06", spec.Initial, spec.Min, spec.Max, spec.Smoothing, slowQ, spec.RTTTol, spec.ProbeInt, nil, nil)
	default:
		l = spec.New(nil, "c06")
	}
	// establish a baseline sequentially (no drops), then restore nothing: the estimate after the prefix is the start
	for i := 0; i < 3; i++ {
		l.OnSample(0, 1000, l.EstimatedLimit(), false)
	}
	e0 := l.EstimatedLimit()
	var mu sync.Mutex
	var seen []int
	l.NotifyOnChange(func(v int) { mu.Lock(); seen = append(seen, v); mu.Unlock() })
	n := 2 + r.IntN(7)
	per := 4 + r.IntN(40)
	bar := lin.NewBarrier(n)
	var wg sync.WaitGroup
	for g := 0; g < n; g++ {
		wg.Add(1)
		go func(g int) {
			defer wg.Done()
			bar.Wait()
			for i := 0; i < per; i++ {
				l.OnSample(0, int64(2000+g*10+i), e0, true)
			}
		}(g)
	}
	wg.Wait()
	rt.Count("concurrent_drop_rounds/"+kind, 1)
	rt.Count("concurrent_drop_samples", int64(n*per))
	cfg := rt.J{"spec": spec, "goroutines": n, "drops_each": per, "start": e0}
	prev := e0
	for i, v := range seen {
		if v > prev {
			rt.Violation("C06/"+kind+"/drop-raised-estimate/concurrent", idx, rt.J{"config": cfg, "notified_head": seen[:min(len(seen), i+2)], "position": i})
			return
		}
		prev = v
	}
	if got := l.EstimatedLimit(); got > prev {
		rt.Violation("C06/"+kind+"/drop-raised-estimate/concurrent", idx, rt.J{"config": cfg, "final": got, "last_notified": prev})
		return
	}
	if len(seen) > 1 {
		rt.Distinct(fmt.Sprintf("concA|%+v|%d|%d", spec, n, per))
	}
}

func TestCheck(t *testing.T) {
	if limgen.LargeTables() {
		rt.Count("shards_started_with_enlarged_lookup_tables", 1)
	}
	rt.Cases(20000, 4000000, func(idx int64) {
		r := rt.CaseRand(6, idx)
		rt.Case()
		switch {
		case idx%20 == 19:
			concurrentDropsAdaptive(idx, r)
		case idx%10 == 9:
			concurrentDrops(idx, r)
		case idx%2 == 0:
			singleDrop(idx, r)
		default:
			sustained(idx, r)
		}
	})
}
