// C16 — change notifications are complete and agree with the reported estimate; wrappers mirror their delegate.
package c16

import (
	"fmt"
	"math/rand/v2"
	"runtime"
	"sync"
	"sync/atomic"
	"testing"

	"github.com/platinummonkey/go-concurrency-limits/core"
	"github.com/platinummonkey/go-concurrency-limits/limit"

	"verifharness/internal/limgen"
	"verifharness/internal/rt"
)

func TestMain(m *testing.M) { rt.Main(m) }

// recLimit is a scripted innermost limit that records what it is handed (for the traced wrapper).
type recLimit struct {
	est       int
	listeners []core.LimitChangeListener
	got       []limgen.Sample
	script    func(n int) int
}

func (l *recLimit) EstimatedLimit() int                       { return l.est }
func (l *recLimit) NotifyOnChange(c core.LimitChangeListener) { l.listeners = append(l.listeners, c) }
func (l *recLimit) OnSample(st int64, rtt int64, inFlight int, didDrop bool) {
	l.got = append(l.got, limgen.Sample{Start: st, RTT: rtt, InFlight: inFlight, Drop: didDrop})
	n := l.script(len(l.got))
	if n != l.est {
		l.est = n
		for _, c := range l.listeners {
			c(n)
		}
	}
}

// dbgLogger is a logger with debug enabled that discards its output.
type dbgLogger struct{}

func (dbgLogger) Debugf(string, ...interface{}) {}
func (dbgLogger) IsDebugEnabled() bool          { return true }

type lst struct {
	id       int
	called   int
	last     int
	stale    int
	staleGot int
}

var innerKinds = []string{"aimd", "vegas", "gradient", "gradient2", "settable", "fixed", "rec"}
var wrapKinds = []string{"bare", "bare", "windowed", "traced", "traced+windowed"}

// concurrentCase: several goroutines feed samples to one sample-driven algorithm; listeners pause before recording.
// At quiescence every listener that was called must hold the value EstimatedLimit reports (delivery order must
// follow update order; correct code notifies under the algorithm's lock, so the pause cannot reorder anything).
func concurrentCase(idx int64, r *rand.Rand) {
	kind := limgen.Kinds[r.IntN(4)]
	spec := limgen.Gen(r, kind, limgen.Opts{NoProbe: true})
	if spec.Smoothing > 0 && spec.Smoothing < 0.3 {
		spec.Smoothing = 1
	}
	l := spec.New(nil, "c16")
	type rec struct {
		mu     sync.Mutex
		called int
		last   int
	}
	recs := make([]*rec, 1+r.IntN(3))
	together := r.IntN(2) == 0 // the listeners are registered at the same moment from different goroutines
	if together {
		recs = make([]*rec, 2+r.IntN(7))
	}
	var regWG sync.WaitGroup
	regBar := make(chan struct{})
	for i := range recs {
		rc := &rec{}
		recs[i] = rc
		register := func() {
			l.NotifyOnChange(func(v int) {
				for k := 0; k < 3; k++ {
					runtime.Gosched()
				}
				rc.mu.Lock()
				rc.called++
				rc.last = v
				rc.mu.Unlock()
			})
		}
		if together {
			regWG.Add(1)
			go func() { defer regWG.Done(); <-regBar; register() }()
		} else {
			register()
		}
	}
	close(regBar)
	regWG.Wait()
	if together {
		rt.Count("concurrent_registration_cases", 1)
	}
	nG := 2 + r.IntN(5)
	seeds := make([]uint64, nG)
	for i := range seeds {
		seeds[i] = r.Uint64()
	}
	base := int64(1) << uint(10+r.IntN(12))
	rounds := 6 + r.IntN(10)
	var wg sync.WaitGroup
	for g := 0; g < nG; g++ {
		wg.Add(1)
		go func(g int) {
			defer wg.Done()
			lr := rand.New(rand.NewPCG(seeds[g], 3))
			for i := 0; i < rounds; i++ {
				s := limgen.Benign(lr, l.EstimatedLimit(), base, 0.15)
				if lr.IntN(2) == 0 {
					s.InFlight = l.EstimatedLimit() + 1
				}
				l.OnSample(0, s.RTT, s.InFlight, s.Drop)
			}
		}(g)
	}
	wg.Wait()
	final := l.EstimatedLimit()
	rt.Count("concurrent_cases", 1)
	anyCalled := false
	for _, rc := range recs {
		anyCalled = anyCalled || rc.called > 0
	}
	for i, rc := range recs {
		// every listener was registered before the first sample: if one of them heard of a change, all of them did
		if anyCalled && rc.called == 0 {
			rt.Violation("C16/"+kind+"/concurrent/registered-listener-never-notified", idx, rt.J{"spec": spec, "listener": i, "listeners": len(recs),
				"registered_at_the_same_moment": together, "estimate": final})
			return
		}
	}
	for i, rc := range recs {
		if rc.called > 0 {
			rt.Count("concurrent_listener_final_checks", 1)
			if rc.last != final {
				rt.Violation("C16/"+kind+"/concurrent/last-notified-value-stale-at-quiescence", idx, rt.J{"spec": spec, "listener": i,
					"last_notified": rc.last, "estimate": final, "goroutines": nG, "samples_per_goroutine": rounds, "notifications": rc.called})
				return
			}
		}
	}
	rt.Distinct(fmt.Sprintf("conc|%+v|%d|%d|%d", spec, nG, rounds, seeds[0]))
}

// readWhileNotifying: an AIMD limit behind the windowed (and optionally the traced) wrapper; a listener that has just been
// told a new value lets another goroutine read the estimate through the wrapper while the notification is still in
// progress.  Whenever that read returns, it returns the value the listener was told (nothing else changes the limit).
func readWhileNotifying(idx int64, r *rand.Rand) {
	inner := limit.NewAIMDLimit("c16", 10+r.IntN(20), 0.9, 1+r.IntN(3), nil)
	w, err := limit.NewWindowedLimit("w", 1e8, 1e8, 10, 0, inner, nil)
	if err != nil {
		panic(err)
	}
	var top core.Limit = w
	wk := "windowed"
	if r.IntN(2) == 0 {
		top, wk = limit.NewTracedLimit(w, limit.NoopLimitLogger{}), "traced+windowed"
	}
	type obs struct{ told, read int }
	var results []obs
	var mu sync.Mutex
	var wg sync.WaitGroup
	top.NotifyOnChange(func(v int) {
		wg.Add(1)
		started := make(chan struct{})
		go func() {
			defer wg.Done()
			close(started)
			got := top.EstimatedLimit()
			mu.Lock()
			results = append(results, obs{v, got})
			mu.Unlock()
		}()
		<-started
		for i := 0; i < 200; i++ { // stay inside the notification for a while
			runtime.Gosched()
		}
	})
	now := int64(1e12)
	for i := 0; i < 30; i++ {
		_ = top.EstimatedLimit() // an ordinary read between the windows
		now += 2e8
		top.OnSample(now, 1000+r.Int64N(1e6), 11+r.IntN(30), r.IntN(4) == 0)
		wg.Wait()
	}
	rt.Count("reads_through_the_wrapper_during_a_notification", int64(len(results)))
	for _, o := range results {
		if o.read != o.told {
			rt.Violation("C16/aimd/"+wk+"/estimate-read-through-the-wrapper-after-the-notification-differs-from-the-notified-value", idx, rt.J{"told": o.told, "read_through_the_wrapper": o.read,
				"delegate_estimate_now": inner.EstimatedLimit()})
			return
		}
	}
	if len(results) > 0 {
		rt.Distinct(fmt.Sprintf("rwn|%s|%d|%d", wk, len(results), results[0].told))
	}
}

// concurrentSets: several goroutines set one SettableLimit (bare or behind the wrappers) to distinct values; listeners
// pause before recording.  At quiescence every listener holds the value EstimatedLimit reports: the explicit set that
// was stored last is also the one delivered last.
func concurrentSets(idx int64, r *rand.Rand) {
	sl := limit.NewSettableLimit("c16", 1+r.IntN(50), nil)
	var top core.Limit = sl
	wk := []string{"bare", "bare", "traced", "windowed"}[r.IntN(4)]
	switch wk {
	case "traced":
		top = limit.NewTracedLimit(sl, limit.NoopLimitLogger{})
	case "windowed":
		w, err := limit.NewWindowedLimit("w", 1e8, 1e8, 10, 0, sl, nil)
		if err != nil {
			panic(err)
		}
		top = w
	}
	type rec struct {
		mu     sync.Mutex
		called int
		last   int
	}
	recs := make([]*rec, 1+r.IntN(3))
	pause := []int{0, 3, 20}[r.IntN(3)]
	for i := range recs {
		rc := &rec{}
		recs[i] = rc
		top.NotifyOnChange(func(v int) {
			for k := 0; k < pause; k++ {
				runtime.Gosched()
			}
			rc.mu.Lock()
			rc.called++
			rc.last = v
			rc.mu.Unlock()
		})
	}
	nG := 2 + r.IntN(5)
	rounds := 20 + r.IntN(60)
	var wg sync.WaitGroup
	var ready atomic.Int32
	for g := 0; g < nG; g++ {
		wg.Add(1)
		go func(g int) {
			defer wg.Done()
			ready.Add(1)
			for ready.Load() < int32(nG) {
				runtime.Gosched()
			}
			for i := 0; i < rounds; i++ {
				sl.SetLimit(1 + g + nG*i) // distinct over all goroutines and rounds
			}
		}(g)
	}
	wg.Wait()
	final := top.EstimatedLimit()
	rt.Count("concurrent_explicit_set_cases", 1)
	for i, rc := range recs {
		rt.Count("concurrent_listener_final_checks", 1)
		if rc.called == 0 || rc.last != final {
			rt.Violation("C16/settable/concurrent/last-notified-value-stale-at-quiescence", idx, rt.J{"wrapper": wk, "listener": i,
				"last_notified": rc.last, "estimate": final, "goroutines": nG, "sets_per_goroutine": rounds, "notifications": rc.called, "listener_pause_yields": pause})
			return
		}
	}
	rt.Distinct(fmt.Sprintf("cset|%s|%d|%d|%d", wk, nG, rounds, final))
}

func TestCheck(t *testing.T) {
	rt.Cases(10000, 400000, func(idx int64) {
		r := rt.CaseRand(16, idx)
		rt.Case()
		if idx%10 == 9 {
			concurrentSets(idx, r)
			return
		}
		if idx%20 == 3 {
			readWhileNotifying(idx, r)
			return
		}
		if idx%5 == 4 {
			concurrentCase(idx, r)
			return
		}
		ik := innerKinds[r.IntN(len(innerKinds))]
		wk := wrapKinds[r.IntN(len(wrapKinds))]
		var inner, decoy core.Limit
		decoyCalls := 0
		var spec any
		var settable *limit.SettableLimit
		var rec *recLimit
		switch ik {
		case "settable":
			v := 1 + r.IntN(50)
			settable = limit.NewSettableLimit("c16", v, nil)
			inner, spec = settable, rt.J{"kind": "settable", "initial": v}
		case "fixed":
			v := 1 + r.IntN(50)
			inner, spec = limit.NewFixedLimit("c16", v, nil), rt.J{"kind": "fixed", "limit": v}
		case "rec":
			traj := make([]int, 64)
			for i := range traj {
				traj[i] = 1 + r.IntN(6)
			}
			rec = &recLimit{est: 3, script: func(n int) int { return traj[n%len(traj)] }}
			inner, spec = rec, rt.J{"kind": "scripted-recorder", "trajectory_head": traj[:8]}
		default:
			s := limgen.Gen(r, ik, limgen.Opts{NoProbe: true})
			if (ik == "gradient" || ik == "gradient2") && s.Min > 2 && r.IntN(6) == 0 {
				s.Initial = 1 + r.IntN(s.Min-1) // built below its own minimum (the constructors accept it): the estimate climbs from there
				rt.Count("cases_built_below_the_minimum", 1)
			}
			if ik == "gradient" && r.IntN(6) == 0 {
				// bounds the constructor accepts although they contradict each other: a maximum below the queue allowance
				// or below the minimum.  Whatever the estimate then is, listeners are told exactly that value.
				s.Max = 1 + r.IntN(3)
				if r.IntN(2) == 0 {
					s.QueueKind, s.QueueArg = []string{"sqrt", "fixed"}[r.IntN(2)], 4+r.IntN(8)
				} else {
					s.Min = s.Max + 1 + r.IntN(6)
				}
				s.Initial = 1 + r.IntN(12)
				rt.Count("gradient_cases_with_a_maximum_below_queue_allowance_or_minimum", 1)
			}
			inner, spec = s.New(nil, "c16"), s
			// a second live instance of the same configuration whose listeners are registered in turn with the first one's:
			// instances share nothing - it receives no sample, so its listeners are never called
			decoy = s.New(nil, "c16-other")
		}
		top := inner
		var win *limit.WindowedLimit
		wcfg := ""
		if wk == "windowed" || wk == "traced+windowed" {
			size := int32(10 + r.IntN(5))
			thr := []int64{0, 1000}[r.IntN(2)]
			var err error
			win, err = limit.NewWindowedLimit("w", 1e8, int64(1e8)*int64(1+r.IntN(3)), size, thr, inner, nil)
			if err != nil {
				panic(err)
			}
			top = win
			wcfg = fmt.Sprintf("windowSize=%d thr=%d", size, thr)
		}
		if wk == "traced" || wk == "traced+windowed" {
			var lg limit.Logger = limit.NoopLimitLogger{}
			if r.IntN(2) == 0 {
				lg = dbgLogger{}
				wcfg += " logger=debug-enabled"
			}
			top = limit.NewTracedLimit(top, lg)
		}
		var ls []*lst
		register := func() {
			l := &lst{id: len(ls)}
			ls = append(ls, l)
			top.NotifyOnChange(func(v int) {
				l.called++
				l.last = v
				// SettableLimit publishes with an atomic store and notifies outside any lock of its own, so reading the
				// estimate here is safe (it would self-deadlock on the mutex-guarded algorithms): from the moment a value is
				// delivered, EstimatedLimit must already report it
				if settable != nil && wk == "bare" {
					if e := settable.EstimatedLimit(); e != v && l.stale == 0 {
						l.stale, l.staleGot = 1, e
					}
				}
			})
			rt.Count("listeners_registered", 1)
			if decoy != nil {
				decoy.NotifyOnChange(func(int) { decoyCalls++ })
			}
		}
		for k := r.IntN(3); k > 0; k-- {
			register()
		}
		nops := 40 + r.IntN(360)
		now := int64(1e12)
		base := int64(1) << uint(10+r.IntN(16))
		changes, notified := 0, 0
		steadyLeft := 0
		var ops []rt.J
		for i := 0; i < nops; i++ {
			if r.IntN(25) == 0 && len(ls) < 6 {
				register()
				ops = append(ops, rt.J{"op": "NotifyOnChange"})
				continue
			}
			before := top.EstimatedLimit()
			for _, l := range ls {
				l.called = 0
			}
			nreg := len(ls)
			var desc rt.J
			recBefore := 0
			if rec != nil {
				recBefore = len(rec.got)
			}
			var smp limgen.Sample
			isSample := true
			if settable != nil && r.IntN(3) == 0 {
				v := 1 + r.IntN(60)
				if r.IntN(3) == 0 {
					v = before // explicit set to the same value
				} else if r.IntN(5) == 0 {
					v = 0 // an explicit set may take the estimate to 0
					rt.Count("explicit_sets_to_zero", 1)
				} else if r.IntN(6) == 0 {
					v = -1 - r.IntN(5) // or below: whatever the limit makes of it, the listeners are told what it then reports
					rt.Count("explicit_sets_to_a_negative_value", 1)
				}
				settable.SetLimit(v)
				desc = rt.J{"op": "SetLimit", "v": v}
				isSample = false
			} else {
				if steadyLeft == 0 && r.IntN(30) == 0 {
					steadyLeft = 20 + r.IntN(40) // steady no-queueing saturated run: the estimate climbs in equal steps
				}
				if steadyLeft > 0 {
					steadyLeft--
					smp = limgen.Sample{RTT: base, InFlight: before + 1}
					rt.Count("steady_growth_samples", 1)
				} else if r.IntN(5) == 0 {
					smp = limgen.Hostile(r, before, limgen.Baseline(inner), 0.2)
				} else {
					smp = limgen.Benign(r, before, base, 0.1)
				}
				if win != nil && r.IntN(2) == 0 {
					smp.InFlight += 12 + r.IntN(20)
				}
				now += r.Int64N(2e8)
				smp.Start = now
				top.OnSample(smp.Start, smp.RTT, smp.InFlight, smp.Drop)
				desc = rt.J{"op": "OnSample", "sample": smp}
			}
			ops = append(ops, desc)
			after := top.EstimatedLimit()
			rt.Count("operations", 1)
			fail := func(sig string, extra rt.J) {
				extra["inner"], extra["wrapper"], extra["wrapper_cfg"], extra["op_index"], extra["op"] = spec, wk, wcfg, i, desc
				extra["estimate_before"], extra["estimate_after"] = before, after
				lo := len(ops) - 12
				if lo < 0 {
					lo = 0
				}
				extra["ops_tail"] = ops[lo:]
				rt.Violation(fmt.Sprintf("C16/%s/%s/%s", ik, wk, sig), idx, extra)
			}
			if d := inner.EstimatedLimit(); d != after {
				fail("wrapper-estimate-differs-from-delegate", rt.J{"delegate_estimate": d})
				return
			}
			if decoyCalls > 0 {
				fail("listener-of-another-instance-was-notified", rt.J{"calls": decoyCalls})
				return
			}
			if before != after {
				changes++
				for _, l := range ls[:nreg] {
					if l.called == 0 {
						fail("listener-not-notified-of-change", rt.J{"listener": l.id, "registered_listeners": nreg})
						return
					}
				}
			}
			for _, l := range ls[:nreg] {
				if l.stale == 1 {
					l.stale = 2
					fail("estimate-not-yet-published-when-listener-is-notified", rt.J{"listener": l.id, "notified": l.last, "estimate_read_inside_callback": l.staleGot})
					return
				}
				if l.called > 0 {
					notified++
					if l.last != after {
						fail("notified-value-differs-from-estimate", rt.J{"listener": l.id, "last_notified": l.last})
						return
					}
				}
			}
			if rec != nil && isSample && wk == "traced" {
				if len(rec.got) != recBefore+1 || rec.got[len(rec.got)-1] != smp {
					fail("traced-did-not-forward-sample-unchanged", rt.J{"delegate_received": rec.got[recBefore:]})
					return
				}
				rt.Count("traced_forward_checks", 1)
			}
		}
		rt.Count("estimate_changes", int64(changes))
		rt.Count("notifications_checked", int64(notified))
		rt.Count("cases/"+ik+"/"+wk, 1)
		if changes > 0 && len(ls) > 0 {
			rt.Distinct(fmt.Sprintf("%v|%s|%s|%d|%d|%v", spec, wk, wcfg, nops, len(ls), ops[len(ops)-1]))
		}
		if rt.WantSample() && idx%61 == 0 {
			rt.Sample(rt.J{"inner": spec, "wrapper": wk, "ops": nops, "listeners": len(ls), "ops_head": ops[:5], "estimate_changes": changes})
		}
	})
}
