// C02 — capacity conservation: each grant returns exactly one unit at every layer, failures hold none.
package c02

import (
	"context"
	"fmt"
	"math/rand/v2"
	"runtime"
	"sync"
	"sync/atomic"
	"testing"
	"testing/synctest"
	"time"

	"github.com/platinummonkey/go-concurrency-limits/core"
	"github.com/platinummonkey/go-concurrency-limits/limit"
	"github.com/platinummonkey/go-concurrency-limits/limiter"
	"github.com/platinummonkey/go-concurrency-limits/patterns/pool"
	"github.com/platinummonkey/go-concurrency-limits/strategy"
	"github.com/platinummonkey/go-concurrency-limits/strategy/matchers"

	"verifharness/internal/blk"
	"verifharness/internal/inject"
	"verifharness/internal/rt"
)

func TestMain(m *testing.M) { rt.Main(m) }

var outcomes = []string{"success", "ignore", "dropped"}

func complete(l core.Listener, o int) {
	switch o % 3 {
	case 0:
		l.OnSuccess()
	case 1:
		l.OnIgnore()
	default:
		l.OnDropped()
	}
}

// ------------------------------------------------------------------ A: default limiter over every strategy, sequential

type layers struct {
	name     string
	lim      *limiter.DefaultLimiter
	busy     func() int
	bin      func(key string) int // -1: not a partitioned strategy
	keys     []string
	limit    int
	admitKey string
	remove   func(key string) // partitioned strategies: remove the partition of that key (its outstanding tokens stay valid)
	setLimit func(int)        // the strategy's own SetLimit (what the limiter calls at every window roll-over)
	readd    func()           // partitioned strategies: add the removed partition objects again
	charged  func(key string) string
}

func keyCtx(k string) context.Context {
	c := context.WithValue(context.Background(), matchers.LookupPartitionContextKey, k)
	return context.WithValue(c, matchers.StringPredicateContextKey, k)
}

func buildLayers(r *rand.Rand) layers {
	limitV := 1 + r.IntN(8)
	var st core.Strategy
	ly := layers{limit: limitV, keys: []string{""}}
	switch r.IntN(4) {
	case 0:
		s := strategy.NewSimpleStrategy(limitV)
		st, ly.name, ly.busy = s, "default+simple", s.GetBusyCount
	case 1:
		s := strategy.NewPreciseStrategy(limitV)
		st, ly.name, ly.busy = s, "default+precise", s.GetBusyCount
	case 2:
		ps := map[string]*strategy.LookupPartition{}
		for _, k := range []string{"a", "b"} {
			ps[k] = strategy.NewLookupPartitionWithMetricRegistry(k, 0.25, 1, core.EmptyMetricRegistryInstance)
		}
		s, err := strategy.NewLookupPartitionStrategyWithMetricRegistry(ps, nil, int32(limitV), core.EmptyMetricRegistryInstance)
		if err != nil {
			panic(err)
		}
		st, ly.name, ly.busy = s, "default+lookup", s.BusyCount
		ly.keys = []string{"a", "b", "zz"}
		ly.bin = func(k string) int {
			if k == "zz" {
				return -1
			}
			n, err := s.BinBusyCount(k)
			if err != nil {
				return -1
			}
			return n
		}
		gone := false
		pb := ps["b"] // the strategy works on the caller's map: keep the object itself
		ly.remove = func(k string) { s.RemovePartition(k); gone = true }
		ly.readd = func() { s.AddPartition("b", pb); gone = false }
		ly.charged = func(k string) string { // while "b" is not in the table its requests belong to the unknown bin
			if k == "b" && gone {
				return "zz"
			}
			return k
		}
	default:
		var ps []*strategy.PredicatePartition
		for _, k := range []string{"a", "b"} {
			ps = append(ps, strategy.NewPredicatePartitionWithMetricRegistry(k, 0.25, matchers.StringPredicateMatcher(k, false), core.EmptyMetricRegistryInstance))
		}
		// overlapping predicates: a catch-all registered last also matches "a" and "b" requests - the first registered
		// matching partition alone is charged
		catchAll := r.IntN(2) == 0
		if catchAll {
			ps = append(ps, strategy.NewPredicatePartitionWithMetricRegistry("any", 0.25, func(context.Context) bool { return true }, core.EmptyMetricRegistryInstance))
		}
		s, err := strategy.NewPredicatePartitionStrategyWithMetricRegistry(ps, int32(limitV), core.EmptyMetricRegistryInstance)
		if err != nil {
			panic(err)
		}
		st, ly.name, ly.busy = s, "default+predicate", s.BusyCount
		ly.keys = []string{"a", "b", "zz"}
		removedB := false
		ly.bin = func(k string) int {
			switch k {
			case "a":
				n, _ := s.BinBusyCount(0)
				return n
			case "b":
				if removedB {
					return -1
				}
				n, _ := s.BinBusyCount(1)
				return n
			case "zz":
				if catchAll && !removedB { // removing what matches "b" takes the catch-all with it
					n, _ := s.BinBusyCount(2)
					return n
				}
			}
			return -1
		}
		var removed []*strategy.PredicatePartition
		ly.remove = func(k string) {
			if k == "b" {
				removed, _ = s.RemovePartitionsMatching(keyCtx("b"))
				removedB = true
			}
		}
		ly.readd = func() { // the very objects the removal returned, in their old order: [a, b(, any)] again
			for _, p := range removed {
				s.AddPartition(p)
			}
			removedB = false
		}
	}
	dl, err := limiter.NewDefaultLimiter(limit.NewFixedLimit("c02", limitV, nil), 1, 1, 0, 10, st, limit.NoopLimitLogger{}, core.EmptyMetricRegistryInstance)
	if err != nil {
		panic(err)
	}
	ly.lim = dl
	ly.setLimit = st.SetLimit
	return ly
}

func sequentialCase(idx int64, r *rand.Rand) {
	ly := buildLayers(r)
	type tok struct {
		l   core.Listener
		key string
	}
	var held []tok
	perKey := map[string]int{}
	var ops []string
	fail := func(sig string, extra rt.J) {
		extra["stack"], extra["limit"], extra["ops"] = ly.name, ly.limit, ops
		rt.Violation("C02/"+ly.name+"/"+sig, idx, extra)
	}
	check := func() bool {
		if b := ly.busy(); b != len(held) {
			fail("strategy-busy-differs-from-outstanding-tokens", rt.J{"busy": b, "outstanding": len(held)})
			return false
		}
		if g := ly.lim.VerifInFlight(); g != int64(len(held)) {
			fail("limiter-inflight-gauge-differs-from-outstanding-tokens", rt.J{"gauge": g, "outstanding": len(held)})
			return false
		}
		if ly.bin != nil {
			for _, k := range ly.keys {
				if b := ly.bin(k); b >= 0 && b != perKey[k] {
					fail("bin-busy-differs-from-outstanding-tokens", rt.J{"bin": k, "busy": b, "outstanding": perKey[k]})
					return false
				}
			}
		}
		rt.Count("sequential_layer_checks", 1)
		return true
	}
	removeAt := -1
	if ly.remove != nil && r.IntN(2) == 0 {
		removeAt = 10 + r.IntN(40)
	}
	readdAt := -1
	if removeAt >= 0 && r.IntN(2) == 0 {
		readdAt = removeAt + 1 + r.IntN(15)
	}
	for i := 0; i < 40+r.IntN(80); i++ {
		if i == readdAt {
			// the removed partition objects come back while tokens granted before the removal are still outstanding:
			// those tokens are still charged to their bin and give their unit back to it
			ly.readd()
			ops = append(ops, fmt.Sprintf("re-add-partition(b) with %d of its tokens outstanding", perKey["b"]))
			rt.Count("partition_readded_with_tokens_outstanding", int64(perKey["b"]))
			if !check() {
				return
			}
			continue
		}
		if i == removeAt {
			// the partition goes away while some of its tokens are outstanding: completing them must still give back
			// exactly one unit each
			ly.remove("b")
			ops = append(ops, fmt.Sprintf("remove-partition(b) with %d of its tokens outstanding", perKey["b"]))
			rt.Count("partition_removed_with_tokens_outstanding", int64(perKey["b"]))
			if !check() {
				return
			}
			continue
		}
		if r.IntN(12) == 0 {
			// the limit moves (also below what is outstanding): nothing that was granted is revoked or written off
			v := 1 + r.IntN(8)
			ly.setLimit(v)
			ops = append(ops, fmt.Sprintf("strategy.SetLimit(%d) with %d outstanding", v, len(held)))
			if v < len(held) {
				rt.Count("limit_lowered_below_outstanding_tokens", 1)
			}
			if !check() {
				return
			}
			continue
		}
		if r.IntN(5) < 3 {
			k := ly.keys[r.IntN(len(ly.keys))]
			actx, how := keyCtx(k), ""
			switch r.IntN(8) {
			case 0: // a context whose deadline has already passed, or that is cancelled: the default limiter gates on capacity only,
				// and whatever it answers, a refusal holds nothing
				c, cancel := context.WithDeadline(actx, time.Unix(1, 0))
				defer cancel()
				actx, how = c, " with an expired context"
				rt.Count("acquires_with_an_ended_context", 1)
			case 1:
				c, cancel := context.WithCancel(actx)
				cancel()
				actx, how = c, " with a cancelled context"
				rt.Count("acquires_with_an_ended_context", 1)
			}
			l, ok := ly.lim.Acquire(actx)
			ops = append(ops, fmt.Sprintf("acquire(%q)%s=%v", k, how, ok))
			if (l != nil) != ok {
				fail("listener-returned-iff-ok-violated", rt.J{"ok": ok, "listener_nil": l == nil})
				return
			}
			if ok {
				if ly.charged != nil {
					k = ly.charged(k)
				}
				held = append(held, tok{l, k})
				perKey[k]++
			}
		} else if len(held) > 0 {
			j := r.IntN(len(held))
			o := r.IntN(3)
			complete(held[j].l, o)
			perKey[held[j].key]--
			ops = append(ops, fmt.Sprintf("%s(%q)", outcomes[o], held[j].key))
			held = append(held[:j], held[j+1:]...)
			rt.Count("completions/"+outcomes[o], 1)
		}
		if !check() {
			return
		}
	}
	for _, h := range held {
		complete(h.l, r.IntN(3))
		perKey[h.key]--
	}
	held = nil
	if !check() {
		return
	}
	ly.setLimit(ly.limit)
	// the limiter again admits its full limit and not more (partitioned: through a key with a share)
	k := ly.keys[0]
	var again []core.Listener
	for i := 0; i < ly.limit; i++ {
		l, ok := ly.lim.Acquire(keyCtx(k))
		if !ok {
			fail("full-limit-not-admitted-after-all-completed", rt.J{"admitted": i})
			return
		}
		again = append(again, l)
	}
	if ly.bin == nil {
		if _, ok := ly.lim.Acquire(keyCtx(k)); ok {
			fail("more-than-the-limit-admitted-after-all-completed", rt.J{})
			return
		}
	}
	if ly.name == "default+lookup" {
		// the total is exhausted by partition "a"; the unknown bucket (a zero-fraction bin of its own) must still have
		// its share of 1 free - unless completions of unknown-key requests did not give their bin unit back
		l1, ok1 := ly.lim.Acquire(keyCtx("zz"))
		l2, ok2 := ly.lim.Acquire(keyCtx("zz"))
		if l1 != nil {
			l1.OnIgnore()
		}
		if l2 != nil {
			l2.OnIgnore()
		}
		rt.Count("unknown_bin_conservation_probes", 1)
		if !ok1 || ok2 {
			fail("unknown-bin-count-not-zero-after-all-completed", rt.J{"first_unknown_acquire_granted": ok1, "second_granted": ok2})
			return
		}
	}
	for _, l := range again {
		l.OnIgnore()
	}
	rt.Count("sequential_cases/"+ly.name, 1)
	rt.Distinct(fmt.Sprintf("seq|%s|%d|%v", ly.name, ly.limit, ops))
}

// ------------------------------------------------------------------ B: blocking stacks in a bubble with give-ups

func worldCase(t *testing.T, idx int64, r *rand.Rand) {
	T := []time.Duration{30 * time.Millisecond, 200 * time.Millisecond, time.Hour}[r.IntN(3)]
	var k blk.Kind
	switch r.IntN(4) {
	case 0:
		k = blk.Kind{Family: "blocking", Timeout: []time.Duration{0, T}[r.IntN(2)]}
	case 1:
		k = blk.Kind{Family: "deadline", Timeout: T}
	default:
		k = blk.Kind{Family: "queue", Ordering: []string{"fifo", "lifo"}[r.IntN(2)], Evict: r.IntN(2) == 0, Backlog: 1 + r.IntN(4), Timeout: T}
	}
	k.Precise = r.IntN(2) == 0
	capacity := 1 + r.IntN(2)
	yields := []int{0, 200, 3000}[r.IntN(3)]
	slowDelegate := k.Family != "queue" && r.IntN(3) == 0
	slowBy := time.Duration(1+r.IntN(40)) * time.Millisecond
	var ops []string
	checks, giveups, sameInstant := 0, 0, 0
	bad := false
	bubble(t, func(t *testing.T) {
		w := blk.NewWorld(k, capacity)
		held := w.Hold(capacity)
		if yields > 0 {
			spin := func(*blk.Waiter) {
				for i := 0; i < yields; i++ {
					runtime.Gosched()
				}
			}
			w.OnPoint("queue.after_push", spin)
			w.OnPoint("queue.before_handoff", spin)
			w.Gate.AfterInnerRelease = func(string) { spin(nil) }
		}
		fail := func(sig string, extra rt.J) {
			if bad {
				return
			}
			bad = true
			extra["kind"], extra["capacity"], extra["ops"], extra["trace"], extra["slow_delegate"] = k, capacity, ops, w.Trace(), slowDelegate
			rt.Violation(fmt.Sprintf("C02/%s/%s", k, sig), idx, extra)
		}
		// a slow delegate: a successful attempt made by a caller takes (virtual) time to return, so that a deadline /
		// time-out can pass between "token taken" and "Acquire returns"; such a token is outstanding although no caller
		// has it yet
		var midFlight atomic.Int64
		if slowDelegate {
			prev := w.Gate.Hook
			w.Gate.Hook = func(e inject.GateEvent) {
				if prev != nil {
					prev(e)
				}
				if e.OK && w.WaiterByGoID(e.GoID) != nil {
					midFlight.Add(1)
					time.Sleep(slowBy)
					midFlight.Add(-1)
				}
			}
		}
		outstanding := func() int {
			n := len(held) + int(midFlight.Load())
			for _, wt := range w.Waiters {
				if wt.Done() && wt.OK && !wt.Completed {
					n++
				}
			}
			return n
		}
		check := func(tag string) {
			w.Quiesce()
			s := w.Snap(tag)
			checks++
			want := outstanding()
			for _, wt := range w.Waiters {
				if wt.Done() && (wt.L != nil) != wt.OK {
					fail("listener-returned-iff-ok-violated", rt.J{"waiter": wt.ID, "ok": wt.OK, "listener_nil": wt.L == nil})
				}
			}
			if s.Busy != want {
				fail("strategy-busy-differs-from-granted-minus-completed", rt.J{"snapshot": s, "granted_minus_completed": want})
			}
			if int(s.InFlight) != want {
				fail("limiter-inflight-gauge-differs-from-granted-minus-completed", rt.J{"snapshot": s, "granted_minus_completed": want})
			}
			if int(s.GateOut) != want {
				fail("delegate-tokens-outstanding-differ-from-granted-minus-completed", rt.J{"snapshot": s, "granted_minus_completed": want})
			}
			if w.Gate.Double.Load() != 0 {
				fail("delegate-token-completed-twice", rt.J{"count": w.Gate.Double.Load()})
			}
		}
		check("start")
		nops := 8 + r.IntN(24)
		for i := 0; i < nops && !bad; i++ {
			switch x := r.IntN(14); {
			case x < 4:
				time.Sleep(time.Duration(1+r.IntN(3)) * time.Millisecond)
				wt := w.Spawn()
				ops = append(ops, fmt.Sprintf("arrive(%d)", wt.ID))
				check("after-arrival")
			case x < 5:
				n := 2 + r.IntN(3)
				for j := 0; j < n; j++ {
					w.Spawn()
				}
				ops = append(ops, fmt.Sprintf("burst(%d)", n))
				check("after-burst")
			case x < 9 || x == 12:
				if x == 12 && k.Timeout > 0 && k.Timeout < time.Hour && k.Family != "blocking" {
					// place the release at the very instant the oldest blocked caller's bound is reached
					var first *blk.Waiter
					for _, wt := range w.Waiters {
						if !wt.Done() {
							first = wt
							break
						}
					}
					if first != nil {
						at := first.Arrived + k.Timeout
						if k.Family == "deadline" {
							at = k.Timeout
						}
						if at > w.Now() {
							time.Sleep(at - w.Now())
							sameInstant++
							ops = append(ops, fmt.Sprintf("sleep-until-bound-of(%d)", first.ID))
						}
					}
				}
				var l core.Listener
				if len(held) > 0 && r.IntN(2) == 0 {
					l, held = held[0], held[1:]
				} else {
					for _, wt := range w.Waiters {
						if wt.Done() && wt.OK && wt.L != nil && !wt.Completed {
							wt.Completed = true
							l = wt.L
							break
						}
					}
					if l == nil && len(held) > 0 {
						l, held = held[0], held[1:]
					}
				}
				if l == nil {
					continue
				}
				before := w.Strat.GetBusyCount()
				o := r.IntN(3)
				w.Release(l, outcomes[o])
				ops = append(ops, "release:"+outcomes[o])
				rt.Count("completions/"+outcomes[o], 1)
				_ = before
				check("after-release")
			case x < 11:
				var cand []*blk.Waiter
				for _, wt := range w.Waiters {
					if !wt.Done() && !wt.Cancelled.Load() {
						cand = append(cand, wt)
					}
				}
				if len(cand) == 0 {
					continue
				}
				wt := cand[r.IntN(len(cand))]
				w.CancelWaiter(wt)
				giveups++
				ops = append(ops, fmt.Sprintf("cancel(%d)", wt.ID))
				check("after-cancel")
			default:
				d := time.Duration(1+r.IntN(40)) * time.Millisecond
				if r.IntN(3) == 0 && k.Timeout < time.Hour {
					d = k.Timeout
					giveups++
				}
				time.Sleep(d)
				ops = append(ops, fmt.Sprintf("sleep(%v)", d))
				check("after-sleep")
			}
		}
		f := w.Teardown(held)
		if !bad {
			switch {
			case len(f.Unreturned) > 0:
				fail("caller-never-returned", rt.J{"final": f})
			case len(f.ListenerOKMismatch) > 0:
				fail("listener-returned-iff-ok-violated", rt.J{"final": f})
			case f.Busy != 0 || f.InFlight != 0 || f.GateOutstanding != 0:
				fail("counts-not-zero-after-every-grant-completed", rt.J{"final": f})
			case f.DoubleCompleted != 0:
				fail("delegate-token-completed-twice", rt.J{"final": f})
			case f.BacklogLen > 0:
				fail("backlog-not-empty-after-every-grant-completed", rt.J{"final": f})
			case f.Readmitted != f.Total || !f.ExtraRefused:
				fail("full-limit-not-exactly-admitted-after-every-grant-completed", rt.J{"final": f})
			}
		}
	})
	rt.Count("bubble_scenarios", 1)
	rt.Count("bubble_scenarios/"+k.Family, 1)
	rt.Count("quiescent_checks", int64(checks))
	rt.Count("give_up_events_injected", int64(giveups))
	rt.Count("releases_at_the_instant_of_a_bound", int64(sameInstant))
	if slowDelegate {
		rt.Count("bubble_scenarios_with_slow_delegate", 1)
	}
	if !bad && checks > 5 {
		rt.Distinct(fmt.Sprintf("%v|%d|%v", k, capacity, ops))
	}
	if rt.WantSample() && idx%23 == 1 {
		rt.Sample(rt.J{"mode": "bubble", "kind": k, "capacity": capacity, "ops": ops})
	}
}

// ------------------------------------------------------------------ C: real-time stress for volume

func stressCase(idx int64, r *rand.Rand) {
	capacity := 1 + r.IntN(3)
	var st interface {
		core.Strategy
		GetBusyCount() int
	}
	if r.IntN(2) == 0 {
		st = strategy.NewSimpleStrategy(capacity)
	} else {
		st = strategy.NewPreciseStrategy(capacity)
	}
	dl, err := limiter.NewDefaultLimiter(limit.NewFixedLimit("c02", capacity, nil), 1, 1, 0, 10, st, limit.NoopLimitLogger{}, core.EmptyMetricRegistryInstance)
	if err != nil {
		panic(err)
	}
	gate := inject.NewGate(dl)
	var lim core.Limiter
	name := ""
	var q *limiter.QueueBlockingLimiter
	switch r.IntN(4) {
	case 0:
		lim, name = gate, "default"
	case 1:
		lim, name = limiter.NewBlockingLimiter(gate, 2*time.Millisecond, nil), "blocking"
	case 2:
		lim, name = limiter.NewDeadlineLimiter(gate, time.Now().Add(150*time.Millisecond), nil), "deadline"
	default:
		q = limiter.NewQueueBlockingLimiterFromConfig(gate, limiter.QueueLimiterConfig{Ordering: []limiter.QueueOrdering{limiter.OrderingFIFO, limiter.OrderingLIFO}[r.IntN(2)],
			MaxBacklogSize: 1 + r.IntN(6), MaxBacklogTimeout: time.Duration(1+r.IntN(3)) * time.Millisecond, BacklogEvictDoneCtx: r.IntN(2) == 0})
		lim, name = q, "queue"
	}
	nG := 8 + r.IntN(9)
	seeds := make([]uint64, nG)
	for i := range seeds {
		seeds[i] = r.Uint64()
	}
	var grants, refusals, mismatch atomic.Int64
	var wg sync.WaitGroup
	for g := 0; g < nG; g++ {
		wg.Add(1)
		go func(g int) {
			defer wg.Done()
			lr := rand.New(rand.NewPCG(seeds[g], 7))
			for i := 0; i < 150; i++ {
				ctx, cancel := context.WithCancel(context.Background())
				if lr.IntN(4) == 0 {
					go func() { runtime.Gosched(); cancel() }()
				}
				l, ok := lim.Acquire(ctx)
				if (l != nil) != ok {
					mismatch.Add(1)
				}
				if ok && l != nil {
					grants.Add(1)
					if lr.IntN(3) == 0 {
						runtime.Gosched()
					}
					complete(l, lr.IntN(3))
				} else {
					refusals.Add(1)
				}
				cancel()
			}
		}(g)
	}
	wg.Wait()
	rt.Count("stress_runs/"+name, 1)
	rt.Count("stress_grants", grants.Load())
	rt.Count("stress_refusals", refusals.Load())
	fail := func(sig string, extra rt.J) {
		extra["stack"], extra["capacity"], extra["goroutines"], extra["grants"], extra["refusals"] = name, capacity, nG, grants.Load(), refusals.Load()
		rt.Violation("C02/stress-"+name+"/"+sig, idx, extra)
	}
	// quiescent: all workers joined (a hand-off in flight finished with the completing call)
	if mismatch.Load() > 0 {
		fail("listener-returned-iff-ok-violated", rt.J{"count": mismatch.Load()})
		return
	}
	if b, g, o := st.GetBusyCount(), dl.VerifInFlight(), gate.Outstanding(); b != 0 || g != 0 || o != 0 || gate.Double.Load() != 0 {
		fail("counts-not-zero-after-every-grant-completed", rt.J{"busy": b, "inflight_gauge": g, "delegate_outstanding": o, "completed_twice": gate.Double.Load()})
		return
	}
	if q != nil && q.VerifBacklogLen() != 0 {
		fail("backlog-not-empty-after-every-grant-completed", rt.J{"backlog": q.VerifBacklogLen()})
		return
	}
	n := 0
	var again []core.Listener
	for {
		l, ok := dl.Acquire(context.Background())
		if !ok {
			break
		}
		again = append(again, l)
		n++
		if n > capacity+2 {
			break
		}
	}
	for _, l := range again {
		l.OnIgnore()
	}
	if n != capacity {
		fail("full-limit-not-exactly-admitted-after-every-grant-completed", rt.J{"admitted": n})
		return
	}
	if grants.Load() > 0 && refusals.Load() > 0 {
		rt.Distinct(fmt.Sprintf("stress|%s|%d|%d|%d", name, capacity, nG, seeds[0]))
	}
}

// ------------------------------------------------------------------ C': the in-flight gauge at rest after overlapping admission and completion

// gaugeBursts: one holder completes while another caller is being admitted (two goroutines released together; the
// user's metric registry yields inside the strategy's sample emission, i.e. inside the admission).  After each such
// pair, at rest, strategy count and limiter gauge must equal the tokens outstanding (1), and 0 after that one completed.
func gaugeBursts(idx int64, r *rand.Rand) {
	capacity := 2 + r.IntN(3)
	reg := inject.NewRecRegistry()
	var armed atomic.Bool
	yields := []int{0, 1, 20, 200}[r.IntN(4)]
	reg.OnSample = func(string, string) {
		if armed.Load() {
			for i := 0; i < yields; i++ {
				runtime.Gosched()
			}
		}
	}
	var st interface {
		core.Strategy
		GetBusyCount() int
	}
	kind := "simple"
	if r.IntN(2) == 0 {
		st = strategy.NewSimpleStrategyWithMetricRegistry(capacity, reg)
	} else {
		st, kind = strategy.NewPreciseStrategyWithMetricRegistry(capacity, reg), "precise"
	}
	dl, err := limiter.NewDefaultLimiter(limit.NewFixedLimit("c02", capacity, nil), 1, 1, 0, 10, st, limit.NoopLimitLogger{}, core.EmptyMetricRegistryInstance)
	if err != nil {
		panic(err)
	}
	cfg := rt.J{"strategy": kind, "capacity": capacity, "registry_yields_in_sample_emission": yields}
	for round := 0; round < 150; round++ {
		h, ok := dl.Acquire(context.Background())
		if !ok {
			rt.Violation("C02/default+"+kind+"/free-capacity-refused", idx, rt.J{"config": cfg, "round": round})
			return
		}
		armed.Store(true)
		var l2 core.Listener
		var ok2 bool
		bar := make(chan struct{})
		var wg sync.WaitGroup
		wg.Add(2)
		out := r.IntN(3)
		go func() { defer wg.Done(); <-bar; complete(h, out) }()
		go func() { defer wg.Done(); <-bar; l2, ok2 = dl.Acquire(context.Background()) }()
		close(bar)
		wg.Wait()
		armed.Store(false)
		reg.Drain()
		want := 0
		if ok2 {
			want = 1
		}
		rt.Count("gauge_at_rest_checks", 1)
		if b, g := st.GetBusyCount(), dl.VerifInFlight(); b != want || g != int64(want) {
			rt.Violation("C02/default+"+kind+"/counts-differ-from-outstanding-tokens-at-rest", idx, rt.J{"config": cfg, "round": round, "outstanding": want, "strategy_busy": b, "inflight_gauge": g,
				"what": "one holder completed while another caller was admitted"})
			return
		}
		if ok2 {
			complete(l2, r.IntN(3))
			if b, g := st.GetBusyCount(), dl.VerifInFlight(); b != 0 || g != 0 {
				rt.Violation("C02/default+"+kind+"/counts-not-zero-after-every-grant-completed", idx, rt.J{"config": cfg, "round": round, "strategy_busy": b, "inflight_gauge": g})
				return
			}
		}
	}
	rt.Distinct(fmt.Sprintf("gaugebursts|%v", cfg))
}

// sharedContextCase: callers queued at a queue limiter with one and the same context value (context.Background(), a
// fanned-out request context).  The oldest times out while the others still wait; the holder then completes.  Every
// caller is an individual: the one that left holds nothing, the unit goes to a caller still waiting, and after all
// completions every count is zero and the limit is admitted again.
func sharedContextCase(t *testing.T, idx int64, r *rand.Rand) {
	ord := []limiter.QueueOrdering{limiter.OrderingFIFO, limiter.OrderingLIFO}[r.IntN(2)]
	evict := r.IntN(2) == 0
	T := time.Duration(10+r.IntN(90)) * time.Millisecond
	nW := 2 + r.IntN(3)
	var sig string
	var detail rt.J
	bubble(t, func(t *testing.T) {
		st := strategy.NewSimpleStrategy(1)
		dl, err := limiter.NewDefaultLimiter(limit.NewFixedLimit("c02", 1, nil), 1e9, 1e9, 1e5, 100, st, limit.NoopLimitLogger{}, core.EmptyMetricRegistryInstance)
		if err != nil {
			panic(err)
		}
		gate := inject.NewGate(dl)
		q := limiter.NewQueueBlockingLimiterFromConfig(gate, limiter.QueueLimiterConfig{Ordering: ord, MaxBacklogSize: 10, MaxBacklogTimeout: T, BacklogEvictDoneCtx: evict})
		var shared context.Context = context.Background()
		if r.IntN(2) == 0 {
			shared = context.WithValue(context.Background(), matchers.LookupPartitionContextKey, "tenant")
		}
		holder, ok := q.Acquire(shared)
		if !ok {
			panic("c02: first unit refused")
		}
		type wt struct {
			done atomic.Bool
			ok   bool
			l    core.Listener
		}
		ws := make([]*wt, nW)
		gap := T / time.Duration(nW+1)
		for i := range ws {
			w := &wt{}
			ws[i] = w
			go func() { w.l, w.ok = q.Acquire(shared); w.done.Store(true) }()
			synctest.Wait()
			time.Sleep(gap)
		}
		// now = nW*gap < T after the first arrival; move just past the first caller's time-out
		time.Sleep(T - time.Duration(nW)*gap + time.Microsecond)
		synctest.Wait()
		fail := func(s string, d rt.J) {
			if sig == "" {
				sig, detail = s, d
			}
		}
		if !ws[0].done.Load() || ws[0].ok {
			fail("timed-out-caller-not-refused", rt.J{})
		}
		holder.OnSuccess()
		synctest.Wait()
		granted := 0
		for _, w := range ws[1:] {
			if w.done.Load() && w.ok && w.l != nil {
				granted++
			}
		}
		if granted != 1 {
			fail("release-not-handed-to-exactly-one-caller-still-waiting", rt.J{"granted": granted, "still_waiting_before": nW - 1})
		}
		// complete grants one by one until nobody holds anything (each completion serves the next caller still waiting)
		for round := 0; round < nW+1; round++ {
			for _, w := range ws {
				if w.done.Load() && w.ok && w.l != nil {
					w.l.OnSuccess()
					w.l = nil
				}
			}
			synctest.Wait()
		}
		time.Sleep(2 * T)
		synctest.Wait()
		for i, w := range ws {
			if !w.done.Load() {
				fail("caller-never-returned", rt.J{"caller": i})
			} else if (w.l != nil) != false && !w.ok {
				fail("listener-returned-iff-ok-violated", rt.J{"caller": i})
			}
		}
		for _, w := range ws {
			if w.done.Load() && w.ok && w.l != nil {
				w.l.OnSuccess()
				w.l = nil
			}
		}
		synctest.Wait()
		if b, g, o, bl := st.GetBusyCount(), dl.VerifInFlight(), gate.Outstanding(), q.VerifBacklogLen(); b != 0 || g != 0 || o != 0 || bl != 0 {
			fail("counts-not-zero-after-every-grant-completed", rt.J{"busy": b, "inflight_gauge": g, "delegate_outstanding": o, "backlog": bl})
		}
		if l, ok := q.Acquire(context.Background()); !ok {
			fail("full-limit-not-admitted-after-all-completed", rt.J{})
		} else {
			l.OnIgnore()
		}
		synctest.Wait()
	})
	rt.Count("shared_context_cases", 1)
	cfg := rt.J{"ordering": ord, "evict": evict, "timeout": T.String(), "callers_sharing_one_context": nW}
	if sig != "" {
		detail["config"] = cfg
		rt.Violation("C02/queue-shared-context/"+sig, idx, detail)
		return
	}
	rt.Distinct(fmt.Sprintf("shared|%v", cfg))
}

// lastCompletionAtPush: the only holder of a queue limiter completes while a newcomer is on its way into the backlog
// (verif points before / after the push).  Once every granted listener has completed nothing is left behind: the
// backlog is empty, every count is zero and nobody is still inside Acquire.
func lastCompletionAtPush(t *testing.T, idx int64, r *rand.Rand) {
	ord := []limiter.QueueOrdering{limiter.OrderingFIFO, limiter.OrderingLIFO, ""}[r.IntN(3)]
	point := []string{"queue.before_push", "queue.after_push"}[r.IntN(2)]
	timeout := []time.Duration{-1, time.Hour}[r.IntN(2)]
	yields := []int{200, 2000}[r.IntN(2)]
	var sig string
	var detail rt.J
	bubble(t, func(t *testing.T) {
		st := strategy.NewSimpleStrategy(1)
		dl, err := limiter.NewDefaultLimiter(limit.NewFixedLimit("c02", 1, nil), 1e9, 1e9, 1e5, 100, st, limit.NoopLimitLogger{}, core.EmptyMetricRegistryInstance)
		if err != nil {
			panic(err)
		}
		q := limiter.NewQueueBlockingLimiterFromConfig(dl, limiter.QueueLimiterConfig{Ordering: ord, MaxBacklogSize: 5, MaxBacklogTimeout: timeout})
		holder, ok := q.Acquire(context.Background())
		if !ok {
			panic("c02: first unit refused")
		}
		var fired atomic.Bool
		limiter.SetVerifHook(func(name string) {
			if name == point && fired.CompareAndSwap(false, true) {
				var done atomic.Bool
				go func() { holder.OnSuccess(); done.Store(true) }()
				for i := 0; i < yields && !done.Load(); i++ {
					runtime.Gosched()
				}
			}
		})
		defer limiter.SetVerifHook(nil)
		var done atomic.Bool
		var l core.Listener
		var got bool
		go func() { l, got = q.Acquire(context.Background()); done.Store(true) }()
		synctest.Wait()
		if !fired.Load() {
			holder.OnSuccess()
			synctest.Wait()
		}
		if done.Load() && got && l != nil {
			l.OnSuccess()
			synctest.Wait()
		}
		// every granted listener has completed
		if b, g, bl := st.GetBusyCount(), dl.VerifInFlight(), q.VerifBacklogLen(); b != 0 || g != 0 || bl != 0 || !done.Load() {
			sig, detail = "something-left-behind-after-every-grant-completed", rt.J{"busy": b, "inflight_gauge": g, "backlog": bl, "newcomer_returned": done.Load()}
			// let the stranded caller go so that the bubble can end
			if l2, ok2 := q.Acquire(context.Background()); ok2 {
				l2.OnSuccess()
			}
			synctest.Wait()
			if done.Load() && got && l != nil {
				l.OnSuccess()
			}
			synctest.Wait()
		}
	})
	rt.Count("last_completion_at_push_cases", 1)
	cfg := rt.J{"ordering": ord, "point": point, "backlog_timeout": timeout.String(), "pause_yields": yields}
	if sig != "" {
		detail["config"] = cfg
		rt.Violation("C02/queue/"+sig, idx, detail)
		return
	}
	rt.Distinct(fmt.Sprintf("lcap|%v", cfg))
}

// ------------------------------------------------------------------ D: pools, behaviourally

func poolCase(t *testing.T, idx int64, r *rand.Rand) {
	lim := 1 + r.IntN(3)
	ord := []pool.Ordering{pool.OrderingRandom, pool.OrderingFIFO, pool.OrderingLIFO}[r.IntN(3)]
	T := 50 * time.Millisecond
	var verdict string
	detail := rt.J{}
	bubble(t, func(t *testing.T) {
		var p core.Limiter
		if r.IntN(2) == 0 {
			fp, err := pool.NewFixedPool("c02", ord, lim, -1, -1, -1, -1, 4, T, nil, nil)
			if err != nil {
				panic(err)
			}
			p = fp
		} else {
			dl, _ := limiter.NewDefaultLimiter(limit.NewFixedLimit("c02", lim, nil), 1e9, 1e9, 1e5, 100, strategy.NewPreciseStrategy(lim), nil, core.EmptyMetricRegistryInstance)
			gp, err := pool.NewPool(dl, ord, 4, T, nil, nil)
			if err != nil {
				panic(err)
			}
			p = gp
		}
		// churn with all three outcomes, some callers giving up by cancellation / time-out
		var wg sync.WaitGroup
		for g := 0; g < lim+3; g++ {
			o := r.IntN(3)
			hold := time.Duration(r.IntN(80)) * time.Millisecond
			cancelAfter := time.Duration(-1)
			if r.IntN(3) == 0 {
				cancelAfter = time.Duration(r.IntN(60)) * time.Millisecond
			}
			wg.Add(1)
			go func() {
				defer wg.Done()
				ctx, cancel := context.WithCancel(context.Background())
				defer cancel()
				if cancelAfter >= 0 {
					go func() { time.Sleep(cancelAfter); cancel() }()
				}
				if l, ok := p.Acquire(ctx); ok && l != nil {
					time.Sleep(hold)
					complete(l, o)
				}
			}()
		}
		wg.Wait()
		time.Sleep(time.Second)
		synctest.Wait()
		// exactly `lim` acquires succeed at once, the next one is not granted
		var got []core.Listener
		for i := 0; i < lim; i++ {
			t0 := time.Now()
			ctx, cancel := context.WithCancel(context.Background())
			l, ok := p.Acquire(ctx)
			cancel()
			if !ok || time.Since(t0) != 0 {
				verdict = "full-limit-not-admitted-after-every-grant-completed"
				detail["admitted"], detail["limit"] = i, lim
				break
			}
			got = append(got, l)
		}
		if verdict == "" {
			ctx, cancel := context.WithCancel(context.Background())
			extra := make(chan bool, 1)
			go func() { l, ok := p.Acquire(ctx); extra <- ok && l != nil }()
			time.Sleep(2 * T)
			cancel()
			if <-extra {
				verdict = "more-than-the-limit-admitted"
			}
		}
		for _, l := range got {
			l.OnIgnore()
		}
		if ord == pool.OrderingRandom {
			if l, ok := p.Acquire(context.Background()); ok {
				l.OnIgnore()
			}
		}
		synctest.Wait()
	})
	rt.Count("pool_cases", 1)
	if verdict != "" {
		detail["limit"], detail["ordering"] = lim, ord
		rt.Violation("C02/pool/"+verdict, idx, detail)
		return
	}
	rt.Distinct(fmt.Sprintf("pool|%d|%d|%d", lim, ord, idx))
}

// simultaneousCompletions: every token of a full limiter (any strategy, partitioned ones with requests spread over their
// keys) is completed at the same moment from as many goroutines.  Each completion gives back exactly one unit of the
// strategy total and of its bin: afterwards every count is zero and the full limit is admitted again.
func simultaneousCompletions(idx int64, r *rand.Rand) {
	// the partitioned strategies alone, 512 tokens given back by 16 goroutines in tight loops (long overlap of releases)
	for round := 0; round < 12; round++ {
		var st interface {
			core.Strategy
			BusyCount() int
		}
		name := "lookup-direct"
		if round%2 == 0 {
			ps := map[string]*strategy.LookupPartition{}
			for _, k := range []string{"a", "b"} {
				ps[k] = strategy.NewLookupPartitionWithMetricRegistry(k, 0.25, 1, core.EmptyMetricRegistryInstance)
			}
			s, err := strategy.NewLookupPartitionStrategyWithMetricRegistry(ps, nil, 512, core.EmptyMetricRegistryInstance)
			if err != nil {
				panic(err)
			}
			st = s
		} else {
			name = "predicate-direct"
			var ps []*strategy.PredicatePartition
			for _, k := range []string{"a", "b", "zz"} {
				ps = append(ps, strategy.NewPredicatePartitionWithMetricRegistry(k, 0.25, matchers.StringPredicateMatcher(k, false), core.EmptyMetricRegistryInstance))
			}
			s, err := strategy.NewPredicatePartitionStrategyWithMetricRegistry(ps, 512, core.EmptyMetricRegistryInstance)
			if err != nil {
				panic(err)
			}
			st = s
		}
		var toks []core.StrategyToken
		for i := 0; i < 512; i++ {
			if t, ok := st.TryAcquire(keyCtx([]string{"a", "b", "zz"}[i%3])); ok {
				toks = append(toks, t)
			}
		}
		const nG = 16
		var wg sync.WaitGroup
		var ready atomic.Int32
		for g := 0; g < nG; g++ {
			wg.Add(1)
			go func(g int) {
				defer wg.Done()
				ready.Add(1)
				for ready.Load() < nG {
					runtime.Gosched()
				}
				for i := g; i < len(toks); i += nG {
					toks[i].Release()
				}
			}(g)
		}
		wg.Wait()
		rt.Count("simultaneous_completions", int64(len(toks)))
		if b := st.BusyCount(); b != 0 {
			rt.Violation("C02/"+name+"/counts-not-zero-after-simultaneous-completions", idx, rt.J{"strategy_busy": b, "tokens_released_by_16_goroutines": len(toks)})
			return
		}
	}
	for round := 0; round < 25; round++ {
		ly := buildLayers(r)
		var held []core.Listener
		for i := 0; i < 3*ly.limit+6; i++ {
			if l, ok := ly.lim.Acquire(keyCtx(ly.keys[r.IntN(len(ly.keys))])); ok {
				held = append(held, l)
			}
		}
		n := len(held)
		var wg sync.WaitGroup
		var ready atomic.Int32
		for i, l := range held {
			wg.Add(1)
			go func(i int, l core.Listener) {
				defer wg.Done()
				ready.Add(1)
				for ready.Load() < int32(n) {
					runtime.Gosched()
				}
				complete(l, i%3)
			}(i, l)
		}
		wg.Wait()
		rt.Count("simultaneous_completion_rounds", 1)
		rt.Count("simultaneous_completions", int64(n))
		bad := rt.J{}
		if b := ly.busy(); b != 0 {
			bad["strategy_busy"] = b
		}
		if g := ly.lim.VerifInFlight(); g != 0 {
			bad["limiter_inflight_gauge"] = g
		}
		if ly.bin != nil {
			for _, k := range ly.keys {
				if b := ly.bin(k); b > 0 {
					bad["bin_"+k] = b
				}
			}
		}
		if len(bad) > 0 {
			bad["stack"], bad["limit"], bad["tokens_completed_at_once"] = ly.name, ly.limit, n
			rt.Violation("C02/"+ly.name+"/counts-not-zero-after-simultaneous-completions", idx, bad)
			return
		}
	}
}

func TestCheck(t *testing.T) {
	rt.Cases(1920, 320000, func(idx int64) {
		r := rt.CaseRand(2, idx)
		rt.Case()
		switch m := idx % 32; {
		case m == 3:
			simultaneousCompletions(idx, r)
		case m == 7:
			gaugeBursts(idx, r)
		case m == 27:
			sharedContextCase(t, idx, r)
		case m == 26:
			lastCompletionAtPush(t, idx, r)
		case m < 8:
			sequentialCase(idx, r)
		case m < 28:
			worldCase(t, idx, r)
		case m < 30:
			poolCase(t, idx, r)
		default:
			stressCase(idx, r)
		}
	})
}

// bubble runs f in a synctest bubble; a bubble that cannot end (goroutines left blocked) is recorded, not fatal.
func bubble(t *testing.T, f func(*testing.T)) {
	rt.Bubble(func() { synctest.Test(t, f) }, "C02")
}
