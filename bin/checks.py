# Per-property configuration of the driver: package, child-process sharding (quick, thorough), watchdog (s),
# observation counters that must be non-zero (vacuity guard), the case-generation rule, assumptions.
COMMON_ASSUME = [
    "Go toolchain go1.26.8 (runtime, testing/synctest) and the harness reference models are trusted",
    "verdict covers only the executions produced by this run (seeded workload), not all inputs/schedules",
]

HOOK_COMMITS = ["f841dfc", "f64b769"]
NOT_APPLICABLE = {}

CHECKS = {
    "C18": dict(
        pkg="c18", race=False,
        technique="lock-step reference-model monitor + reset-twin relational monitor over seeded op sequences",
        level_text="The concurrent-reset scenario's Update-in-progress device (an identity Update yields while a Reset and an Add queue up behind it) runs for every measurement type, the minimum included. Moving percentile: every fifth Add is a sample exactly equal to the current estimate; the estimate never moves away from the sample it is shown. The moving variance is compared with a model composed of two public moving averages (squared deviation of each sample from the running mean of the samples before it). For the exponential average the warm-up mean is checked after Updates as well. MinimumMeasurement.Update with a positive result is modelled as one more sample. Reset overlapping Add (300 rounds per case; free-running, or both queued behind an identity Update that holds the instance lock and yields): afterwards the instance equals, bit for bit, a new instance with or without that sample. Every Add/Get/Reset/Update result of the real primitives is compared online with an independent reference fold "
                   "(minimum, latest, warm-up mean, hull, variance>=0), reset twins are compared bit-for-bit, the flag is checked against "
                   "observed value changes, and window folds against a reference and a permutation - over thousands (quick) to hundreds of "
                   "thousands (thorough) of seeded sequences. Exploration: it shows the property on the sequences run, not for all.", shards=(4, 16), timeout_s=(300, 1800),
        require=["percentile_samples_equal_to_the_estimate", "variance_model_checks", "warmup_mean_checks_after_an_update", "minimum_updates_modelled_as_a_sample", "concurrent_reset_rounds", "adds_changing_value", "adds_not_changing_value", "reset_twin_pairs", "window_folds", "hull_checks",
                 "warmup_mean_checks", "concurrent_minimum_rounds", "variance_alpha_twin_pairs", "concurrent_single_update_rounds"],
        rule="PRNG op sequences (add/get/update/reset) over samples in [1,2^50] for each primitive (minimum, single, "
             "exp-average, simple EMA, moving variance, windowless percentile) run in lock-step with a reference fold; "
             "reset-twin pairs (prefix;Reset;suffix vs fresh;suffix) compared bit-for-bit; sample-window folds vs "
             "reference and a random permutation. A case is non-trivial if at least one Add changed the stored value "
             "(lock-step), always for twins and windows of >=2 samples; distinct = distinct (kind, config, op sequence) hashes.",
        assumptions=COMMON_ASSUME + ["domain: window>=1, warm-up>=1, alpha in (0,1], samples finite and in [1,2^50]; value oracles are "
                                     "suspended after an Update until the next Reset (Update may move the value arbitrarily)"],
    ),
    "C04": dict(
        pkg="c04", race=False, shard_env={"GO_CONCURRENCY_LIMIT_LOG10ROOT_PRE_COMPUTE": "4096", "GO_CONCURRENCY_LIMIT_SQRT_PRE_COMPUTE": "4096"}, shards=(4, 16), timeout_s=(300, 1800),
        technique="bounds-and-recover monitor after every sample over hostile seeded sample sequences",
        level_text="Side-by-side cases: 4-12 Vegas limits, each sampled by its own goroutine, every sample a probe (a panic is reported by the driver as a library panic under this property). One traced wrapper in four is built without a logger (nil = no logging). Gradient2 with a maximum below its default minimum and the minimum left to default: refused by the constructor or, if an instance is handed out, held to the configured maximum. One Vegas / Gradient case in ten asks the constructor for its default maximum (0 / -1 => 1000). A quarter of the Vegas cases carry caller-supplied step / threshold functions (limit/2, limit-3, threshold 0 / -1, +2); one case in five uses a debug-enabled logger; one in twelve an out-of-range smoothing (constructor default applies). After every OnSample (run under recover) of AIMD/Vegas/Gradient/Gradient2, bare and wrapped by windowed/traced limits, the "
                   "reported estimate is checked against [max(1,min), max(max,initial)] (AIMD: max(initial, max in-flight seen + increment)); "
                   "int(NaN) shows up as MinInt64 and trips the same bound. Hostile inputs: rtt 0/1/baseline/up to 2^62, in-flight 0..2^31-1, "
                   "drop-only phases; one shard in four each is started with both pre-computed tables enlarged, only the sqrt table, only the log10 table; one case in twelve asks for the default minimum (0) together with a queue allowance that is 0 for small limits "
                   "(fixed 0 or limit/10). Exploration over seeded sequences, not a proof for all inputs.",
        require=["gradient2_cases_maximum_below_the_default_minimum", "cases_asking_for_the_default_maximum", "vegas_cases_with_caller_supplied_functions", "cases_with_out_of_range_smoothing", "samples", "estimate_changes", "cases_with_rtt_zero", "cases_with_drop_only_phase", "cases_default_minimum_and_zero_queue_allowance"],
        rule="PRNG valid configuration (min<=initial incl. initial>max, smoothing/backoff in (0,1], queue allowance<=max) x wrapper "
             "(bare, windowed, traced, traced+windowed) x 50-400 samples from hostile/benign phases; non-trivial = the reported estimate changed at "
             "least once; distinct = distinct (config, wrapper, length, first sample).",
        assumptions=COMMON_ASSUME + ["configuration domain as stated in the property (valid configurations); Gradient initial >= its floor"],
    ),
    "C06": dict(
        pkg="c06", race=False, shard_env={"GO_CONCURRENCY_LIMIT_LOG10ROOT_PRE_COMPUTE": "4096", "GO_CONCURRENCY_LIMIT_SQRT_PRE_COMPUTE": "4096"}, shards=(4, 16), timeout_s=(300, 1800),
        technique="before/after monitor on drop samples from seeded reachable states + bounded-progress monitor on sustained drop runs",
        level_text="Vegas functions supplied by the caller now include a capped and a switched-off increase step (with the default decrease). One Vegas sustained run in eight consists of drops that all measured 0 ns (probes are paid for in the bound: 2B+8 samples). One Gradient sustained run in eight uses negative RTTs (a drop is a drop whatever it measured). Vegas with a caller-supplied baseline measurement (SingleMeasurement): drops whose RTT is not below the baseline are applied (at most every second sample of a strictly rising run can be a probe). One Vegas / Gradient case in eight asks for the default maximum (the configured minimum still holds). A quarter of the Vegas cases carry caller-supplied step / threshold functions. From PRNG-generated reachable states (config + random prior history) every drop sample is checked for non-increase of the "
                   "reported estimate, AIMD additionally for the exact rule max(1,min(limit-1,floor(limit*ratio))) (exact rational and float floor "
                   "both accepted); sustained drop runs with unique increasing RTTs (so probes are observable) must reach the floor within an "
                   "analytic bound of effective samples; cap without enough effective samples is inconclusive. Concurrent: N drops delivered to one AIMD limit at once must "
                   "compose exactly; 2-8 goroutines deliver only drops to one Vegas / Gradient limit (large limits, the user-supplied queue function yields "
                   "or sleeps 20us) and the values reported to a change listener never rise. Exploration.",
        require=["vegas_sustained_runs_of_drops_at_rtt_zero", "vegas_cases_with_caller_supplied_baseline_measurement", "cases_asking_for_the_default_maximum", "vegas_cases_with_caller_supplied_functions", "concurrent_drop_rounds/vegas", "concurrent_drop_rounds/gradient", "single_drop_samples", "single_drop_lowered", "aimd_exact_rule_checks", "sustained_drop_samples",
                 "floor_reached/aimd", "floor_reached/vegas", "floor_reached/gradient", "probe_or_baseline_samples_observed", "concurrent_drop_rounds"],
        rule="case = (algorithm in AIMD/Vegas/Gradient, valid config, random prefix of 0-150 benign/hostile samples) then either 1-4 hostile drop "
             "samples or a sustained drop run; non-trivial = some drop lowered the estimate / the run started above the floor; distinct = "
             "distinct (config, history length, last sample / start estimate).",
        assumptions=COMMON_ASSUME + ["bounded part: smoothing>=0.05, max<=300, Vegas probe multiplier>=5, Gradient initial>=floor (DESIGN 8)"],
    ),
    "C07": dict(
        pkg="c07", race=False, shard_env={"GO_CONCURRENCY_LIMIT_LOG10ROOT_PRE_COMPUTE": "4096", "GO_CONCURRENCY_LIMIT_SQRT_PRE_COMPUTE": "4096"}, shards=(4, 16), timeout_s=(300, 1800),
        technique="before/after monitor on app-limited samples + bounded-progress (stuck-detection) monitor on healthy saturated runs from seeded reachable states",
        level_text="One Vegas recovery run in six uses a caller-supplied baseline measurement (SingleMeasurement). Exact steps: fresh Gradient / Gradient2 limits with smoothing exactly 1 and a fixed queue allowance q grow by q per healthy saturated sample (Gradient also at RTT 0; Gradient2 within one unit, its long-term average of a constant may sit an ulp below it). AIMD healthy runs include successes of seconds up to 2^62 ns; Gradient runs started on the default ceiling 1000 (= size of the square-root table) with the default queue allowance; 8 rounds per concurrent-saturated case. Concurrent healthy rounds: M identical healthy samples delivered to one Vegas / Gradient / Gradient2 limit from 2-7 goroutines next to a goroutine polling EstimatedLimit() end at the estimate a twin reaches sequentially. One Vegas recovery run in five carries a caller-supplied threshold (0 / -1): growth by the default increase step, bound adjusted. A quarter of the non-AIMD recovery runs use a debug-enabled logger; one AIMD run in six asks for the default increment (0 / -1 => 1). Gradient recovery runs with probing disabled last 2100 samples and must never collapse at a probe. From PRNG-generated reachable states (valid config + prior history with drops, zero and huge RTTs): app-limited non-drop samples "
                   "(2*inFlight < reported estimate; AIMD inFlight < limit, including the edge value) must not raise the estimate; healthy saturated "
                   "runs at the baseline RTT must add the increment on every sample (AIMD), grow by at least the queue allowance per non-probe sample "
                   "(Gradient), or bring the reported estimate to ceiling-1 within an analytic sample bound (Vegas, Gradient2); a run that stopped "
                   "rising below the ceiling is a violation, one still rising at the cap is inconclusive. Exploration.",
        require=["exact_step_samples", "aimd_healthy_samples_slower_than_a_millisecond", "gradient_recovery_runs_at_the_default_ceiling", "concurrent_healthy_rounds", "vegas_recovery_runs_with_a_caller_supplied_threshold", "recovery_runs_with_a_debug_logger", "aimd_recovery_runs_with_the_default_increment", "gradient_recovery_runs_with_probing_disabled", "app_limited_samples", "app_limited_samples_at_the_edge", "healthy_samples", "recovered/aimd", "recovered/vegas",
                 "recovered/gradient", "recovered/gradient2", "gradient_probes_observed", "concurrent_saturated_rounds"],
        rule="case = (algorithm, valid config, random prefix of 0-150 hostile/drop-heavy/benign samples) then app-limited samples or a healthy "
             "saturated run; non-trivial = run started below ceiling-1 (always for app-limited cases); distinct = distinct (config, start estimate, history length).",
        assumptions=COMMON_ASSUME + ["bounded part: smoothing>=0.05, max<=300, Vegas probe multiplier>=5, rtt tolerance>=1, long window in [1,200], "
                                     "Gradient initial>=floor (DESIGN 8)"],
    ),
    "C08": dict(
        pkg="c08", race=False, shards=(4, 16), timeout_s=(300, 1800),
        technique="relational two-run monitor: identically seeded twin instances, same history, final sample differing only in RTT",
        level_text="Gradient2 pairs after a constant-RTT run and one slower sample with the in-flight count right at half the (fractional) estimate and rtt_hi a few percent above the long-term mean. A fourth state class: an estimate that has just grown into its maximum (2/24). One case in five with a debug logger, one in twelve with out-of-range smoothing. The known finding is keyed by 'estimate above max AND built with initial > max'. Three state classes: PRNG history (19/24), estimate exactly at its maximum (3/24: initial = max, app-limited history), estimate above its maximum (2/24: initial > max). Twin instances of Vegas/Gradient/Gradient2 are built under the same math/rand seed (identical probe decisions), replay the same "
                   "PRNG prefix, then receive a final sample with rtt_lo < rtt_hi (both >= current baseline, same in-flight and drop flag); the "
                   "monitor requires estimate(rtt_hi) <= estimate(rtt_lo). Twins that diverge before the final sample are inconclusive. Exploration over seeded pairs.",
        require=["gradient2_pairs_with_inflight_at_half_the_estimate", "pairs_from_an_estimate_grown_into_its_maximum", "pairs_from_an_estimate_exactly_at_its_maximum", "pairs_from_an_estimate_above_its_maximum", "pairs", "pairs_strictly_ordered", "pairs_where_estimate_moved"],
        rule="pair = (algorithm, valid config, prefix of 0-120 samples, rtt_lo/rtt_hi with relative gap >= 1e-6 and <= 2^40, in-flight, drop flag); "
             "non-trivial = at least one twin's estimate moved on the final sample; distinct = distinct (config, prefix length, rtt pair, in-flight, drop).",
        assumptions=COMMON_ASSUME + ["math/rand.Seed is effective for the library's jitter (harness go.mod 'go 1.23' keeps randseednop=0); twins are checked for equal state before the final sample"],
    ),
    "C15": dict(
        pkg="c15", race=False, shards=(4, 16), timeout_s=(300, 1800),
        technique="online trace monitor over unique-RTT histories: suffix-minimum, reset-order, staleness and probe-spacing checks on RTTNoLoad()",
        level_text="Gradient sequences contain short runs of samples that measured nothing (RTT 0): they leave the baseline unset and change nothing about when the next probe is due (a positive-RTT sample that leaves the baseline unset is counted as a probe). Reset-horizon check (Vegas): the countdown runs from the last certain reset - once its horizon has passed the baseline must stem from a sample no earlier than the earliest possible probe (0.5 x multiplier x smallest estimate after that reset). Every sample has a unique RTT (level steps up and down), so RTTNoLoad() after each sample names its source sample. The monitor "
                   "checks: unset or <= current RTT; equals an observed RTT that is the minimum since its own sample; the implied reset point never "
                   "moves backwards; age of the source < multiplier*(max estimate+1)+1 (Vegas) / < 2*interval (Gradient); resets neither overdue nor "
                   "earlier than the documented jitter range allows. Jitter is reproducible through math/rand.Seed. One Vegas case in four is built by "
                   "NewDefaultVegasLimit / NewDefaultVegasLimitWithLimit / the full constructor with probeMultiplier -1 or 0 (documented default 30), half of "
                   "those with the limit pinned by app-limited samples; one in three of the others is handed a caller-supplied baseline measurement. Exploration.",
        require=["gradient_runs_of_zero_rtt_samples", "reset_horizon_checks", "cases_with_caller_supplied_baseline_measurement", "cases_with_default_probe_multiplier/NewDefaultVegasLimit", "cases_with_default_probe_multiplier/WithRegistry(probeMultiplier=-1)", "samples", "baseline_resets_observed", "baseline_raises_observed", "baseline_lowerings_observed", "cases/vegas", "cases/gradient"],
        rule="case = (Vegas with max<=40 and multiplier in {1..30} or Gradient with interval in {3,10,50,200,disabled}, math/rand seed, 1500-4000 "
             "samples with unique RTTs whose level steps up/down); non-trivial = at least one reset and one lowering of the baseline observed; "
             "distinct = distinct (config, seed, length, middle RTT).",
        assumptions=COMMON_ASSUME + ["probe spacing lower bounds use the documented jitter ranges (Vegas jitter in [0.5,1), Gradient countdown in [interval, 2*interval))"],
    ),
    "C16": dict(
        pkg="c16", race=False, shards=(4, 16), timeout_s=(300, 1800),
        technique="per-operation monitor: recording change listeners vs EstimatedLimit() before/after every OnSample/SetLimit",
        level_text="Reads through the windowed (and traced) wrapper made by another goroutine while a notification is in progress return the notified value. A second live instance of the same configuration registers its listeners in turn with the first one's; it receives no sample and must never be called. Concurrent explicit sets on a SettableLimit (2-6 goroutines, distinct values, pausing listeners; bare / traced / windowed): at rest every listener holds the reported estimate. Gradient with bounds the constructor accepts although they contradict each other (maximum below the queue allowance or the minimum). Explicit sets to negative values. Gradient / Gradient2 also built below their own minimum; explicit sets to 0. Concurrent variant: in half of the cases 2-8 listeners are registered at the same moment from different goroutines; if any listener heard of a change, all did. For AIMD/Vegas/Gradient/Gradient2/Settable/Fixed and a scripted recorder, bare and under Windowed, Traced and Traced(Windowed): "
                   "around every operation the monitor compares EstimatedLimit() before/after, requires every previously registered listener to "
                   "have been called if it changed, requires the last notified value to equal the new estimate, requires the wrapper's estimate "
                   "to equal the delegate's, and requires Traced to forward the sample unchanged. Listeners are registered at random points. "
                   "A concurrent variant (2-6 goroutines feeding one sample-driven algorithm, listeners pausing before they record) requires every "
                   "listener's last value to equal EstimatedLimit() at quiescence. Exploration.",
        require=["reads_through_the_wrapper_during_a_notification", "concurrent_explicit_set_cases", "gradient_cases_with_a_maximum_below_queue_allowance_or_minimum", "cases_built_below_the_minimum", "explicit_sets_to_zero", "concurrent_registration_cases", "operations", "estimate_changes", "notifications_checked", "listeners_registered", "traced_forward_checks",
                 "concurrent_cases", "concurrent_listener_final_checks"],
        rule="case = (inner limit kind + valid config, wrapper chain, 40-400 ops: OnSample benign/hostile, SetLimit for settable, late NotifyOnChange); "
             "non-trivial = estimate changed at least once with a listener registered; distinct = distinct (config, wrapper, op count, listener count, last op).",
        assumptions=COMMON_ASSUME,
    ),
    "C03": dict(
        pkg="c03", race=False, shards=(4, 16), timeout_s=(300, 2400),
        technique="lock-step reference-model monitor over seeded op sequences + porcupine linearizability check of recorded concurrent histories + quiescence invariant",
        level_text="A predicate partition moved from one strategy to another (removed, added elsewhere) is accounted where it is registered; a second partition with a name already in use is added and served. A lookup partition may be registered under the empty key (with the default lookup function untagged requests are looked up under it). Two predicate strategies built from sub-slices of one array of partitions: additions to one (sequential or concurrent) leave the other admitting its own partitions. Requests that carry no tag or a non-string tag (never the empty tag), the empty pattern among the bundled matcher's patterns; lookup requests racing with the removal of their partition (400 rounds per storm case: admitted <=> the removal reports 1 busy). Matcher patterns and keys include U+0130 (lower-case form longer in UTF-8). Release-window rounds (1500 per case): total at the limit, both partitions at their share; one goroutine releases a token of a while another keeps asking for b until the freed slot can be borrowed and then asks for a - which must be admitted. Sequential: after every acquire/release/SetLimit/add/remove step on both partitioned strategies the grant decision (the iff of the "
                   "statement), total busy/limit, every bin count and every bin share are compared with an integer-arithmetic reference model "
                   "(dyadic and decimal fractions, zero fractions, unknown/unmatched/empty keys, overlapping predicates, limits set to <=0; lookup partition objects named differently from the key they are registered under, re-adding a registered key "
                   "must be refused; the bundled string matcher in both flavours with patterns in either case). "
                   "Concurrent: 2-6 goroutines on one strategy, client-boundary histories on a logical clock checked with porcupine against the "
                   "same model, bins must be zero at quiescence. Storms: 2-5 concurrent SetLimit callers, and AddPartition racing with a "
                   "limit change (barrier-released, 120 rounds): at quiescence every bin share must be the share of the limit in force. "
                   "Exploration over the sequences and interleavings produced.",
        require=["partitions_moved_between_strategies", "lookup_cases_with_a_partition_under_the_empty_key", "strategies_built_from_sub_slices_of_one_array", "acquire_vs_remove_rounds", "release_window_rounds_with_a_borrowed_grant", "acquires", "releases", "setlimits", "partition_adds", "partition_removes", "grants_on_guaranteed_share_while_total_full",
                 "grants_borrowing_beyond_share", "requests_for_unknown_or_unmatched_keys", "concurrent_histories", "histories_linearizable",
                 "overlapping_operation_pairs", "sequential_cases/lookup", "sequential_cases/predicate", "storm_quiescent_share_checks", "storm_add_vs_setlimit_rounds", "partition_duplicate_adds_refused"],
        rule="sequential case = (strategy kind, 1-5 partitions with fractions k/32 or k/100 summing <=1, total limit 1-50, 20-120 ops); concurrent case = "
             "(config, 2-6 goroutines x 3-8 pre-drawn ops, small limit); limits whose share would depend on binary rounding of limit*fraction are "
             "avoided, not judged. non-trivial = both grants and refusals occurred (sequential) / at least one overlapping operation pair (concurrent); "
             "distinct = distinct (config, op count, last ops) hashes.",
        assumptions=COMMON_ASSUME + ["porcupine v1.3.0; checker timeout (10 s) is inconclusive", "fractions sum <= 1 also after dynamic adds"],
    ),
    "C14": dict(
        pkg="c14", race=False, shards=(4, 16), timeout_s=(300, 1800),
        technique="event-sequence monitor over test doubles (recording limiter/listener/handler/invoker/stream, scripted classifiers)",
        level_text="One stream handler in three returns nil (after operations that may have been refused). StreamServerInfo with every combination of IsClientStream / IsServerStream. One limit-exceeded classifier in four returns a nil error (it only chooses the code). Calls whose own result is the error of their ended context (context.Canceled / DeadlineExceeded, verbatim); stream operations returning io.EOF, io.ErrUnexpectedEOF, context errors and status errors, followed by further operations on the same wrapper. Shared-interceptor cases use 8-64 goroutines over a real DefaultLimiter with the default limit-exceeded classifier under the scenario watchdog (a wedged limiter is classified as a library-mutex deadlock); default-direction cases: 20 receives parked in the transport, a send is still admitted. One stream in five runs behind another stream interceptor of this package (each gates every operation). Every intercepted call is judged from the recorded event sequence: exactly one Acquire, on the limiter configured for that "
                   "operation (unary / receive / send), before the wrapped call; wrapped call invoked iff granted; exactly one completion whose "
                   "outcome equals the consulted classifier's result (success for an error-free stream op; default classifiers when none configured); "
                   "result and error returned by identity; on refusal nothing else touched and the status code equals the limit-exceeded "
                   "classifier's (any of the 16 non-OK codes); every classifier, handler and invoker must be handed the call's own request / reply / info / "
                   "error / limiter objects (identity). The two stream response classifiers are configured independently (a classifier serves one direction only; the other runs on the default); a second stream through "
                   "another interceptor is opened and used in the middle of the first stream's handler. All option combinations incl. defaults, random RecvMsg/SendMsg sequences, plus a shared interceptor over a real "
                   "DefaultLimiter whose in-flight must return to 0. Exploration over seeded inputs.",
        require=["stream_handlers_returning_nil", "limit_exceeded_classifiers_returning_a_nil_error", "calls_whose_result_is_the_error_of_their_ended_context", "stream_ops_returning_io_EOF", "default_direction_cases", "streams_behind_another_stream_interceptor", "stream_ops_with_only_one_response_classifier_configured", "streams_opened_while_another_is_open", "unary_calls", "stream_ops", "granted_calls_checked", "refused_calls_checked", "send_ops_on_recording_send_limiter",
                 "recv_ops_on_recording_recv_limiter", "shared_interceptor_calls", "calls_with_a_dead_context"],
        rule="case = unary client/server call (grant/refuse, handler result, classifier result, option subset) or a stream with 1-12 RecvMsg/SendMsg ops "
             "(each with its own grant/error/classifier result) or a shared-interceptor stress; non-trivial = every judged case; distinct = distinct "
             "(option subset, outcomes, op sequence).",
        assumptions=COMMON_ASSUME + ["classifiers return one of success/ignore/dropped and a non-nil error with a non-OK code on refusal (as quantified)",
                                     "which of the two stream response classifiers serves which direction is left open: exactly one must be consulted"],
    ),
    "C20": dict(
        pkg="c20", race=False, shards=(8, 16), timeout_s=(600, 3000),
        technique="recording MetricRegistry + lock-step model of emitted samples/gauges; backend-content and dogstatsd wire-capture monitors; poller life-cycle monitor (goroutine census + poll counters)",
        level_text="A windowed limit over an instrumented algorithm: the delegate's drop counter moves iff the window it was handed contained a drop, wherever; limiter-path cases include ignored completions and windows that follow abandoned (ignored) requests. Limit moved from outside (SettableLimit): after the next window the algorithm's limit gauge and the strategy's limit gauge both report the new value. Address-built datadog registry: samples offered after Start / Stop still reach the loop-back agent (listener registered before and after); lookup table changes (AddPartition / RemovePartition of a key) while tokens are outstanding - per-partition in-flight samples still equal the bin's own count. Concurrent life-cycle cases begin with 25 rounds of simultaneous Starts (spin barrier): one poller, Stop returns, none left; forwarded metric ids include ones that begin with the prefix. Half of the polled-gauge cases register two of the three gauges after Start (the early gauge's poll count is the clock: 40 more polls without the late ones being polled is a violation). Limiter-path cases: the in-flight sample an instrumented limit emits per window equals the peak at admission incl. dropped requests, drop counter iff the window had a drop; concurrent limiter cases: no in-flight figure above the constant limit. With a recording registry every admission decision of Simple/Precise/Lookup/Predicate strategies must emit exactly the in-flight "
                   "(bin) count at the decision, gauges must equal the enforced limit/shares after every step, every OnSample of every limit kind must "
                   "emit rtt and in-flight once and the drop counter iff dropped under the prefixed names. The bundled registries are checked through the "
                   "go-metrics registry contents and the captured dogstatsd wire lines (kind suffix, prefixed name, value), the address-based datadog "
                   "constructor through a loop-back UDP socket playing the agent (default prefix), and polled gauges of a started registry: suppliers that "
                   "report (v, true), never a value (ok=false) or a value only for their first polls - the backend must hold the reported values and nothing for the "
                   "supplier without values; the queue_size gauge in a bubble while callers come and go, incl. a time-out / cancellation colliding with the hand-off. Life cycle: seeded "
                   "Start/Stop/RegisterGauge sequences (sequential and concurrent) with a census of live poller goroutines (1 iff started, never 2, 0 "
                   "after Stop returns), frozen supplier counts while stopped, and a watchdog that classifies a hang as the Stop-vs-tick wait-for cycle "
                   "from the goroutine dump. Exploration.",
        require=["queue_gauge_cases", "queue_gauge_dynamic_cases", "windows_handed_to_an_instrumented_delegate", "limiter_path_windows_after_abandoned_requests", "limit_gauges_compared_after_an_external_set", "lookup_table_changes_with_tokens_outstanding", "samples_after_a_stop_checked_via_udp", "simultaneous_start_rounds", "gauges_registered_after_start", "limiter_path_windows", "concurrent_limiter_inflight_samples", "queue_gauge_dynamic_cases", "strategy_decisions", "partition_decisions", "limit_samples", "limit_drop_samples", "gauge_reads", "forwarded_samples_checked",
                 "polled_gauge_checks", "forwarded_samples_checked_via_udp", "lifecycle_states_checked", "frozen_poll_count_checks", "live_poll_observations", "lifecycle_cases/gometrics",
                 "lifecycle_cases/datadog", "concurrent_lifecycle_cases", "concurrent_strategy_sample_rounds"],
        rule="case kinds: strategy op sequence (30-80 ops), partitioned strategy op sequence, limit sample sequence (30-90 samples, every limit kind incl. "
             "windowed), queue gauge configuration, registry forwarding (6 metrics of random kind/prefix/id), life-cycle sequence (2-8 ops) and concurrent "
             "life cycle (2-4 goroutines); all judged cases are non-trivial; distinct = distinct (kind, config, op sequence).",
        assumptions=COMMON_ASSUME + ["life-cycle checks run in real time with 50-500us polling; only stable states are judged (poller count after bounded settling, "
                                     "counter movement while stopped); a started poller that does not tick in 2000 periods is inconclusive"],
    ),
    "C09": dict(
        pkg="c09", race=False, shards=(4, 16), timeout_s=(600, 3000),
        technique="recording delegate limit + reference fold, DefaultLimiter driven on a synctest virtual clock (exact RTTs / window boundaries), WindowedLimit on explicit timestamps",
        level_text="Hand-off at the time-out instant: queue limiter over the default limiter, the holder completes at the very instant the queued caller's time-out fires (hand-off paused at its schedule point), everybody completes successfully - no delivered window may carry the drop flag. Simultaneous completions: what is not part of the delivered window must be pending in the next one, all of it (no completion is wiped by the reset another completion's update performs). Admission-inside-a-release cases: a fixed-capacity strategy whose tokens call back right after giving their unit back; every completion (success / ignore / drop) is followed at that instant by an admission - no delivered window may report more in flight than the capacity. The algorithm also sits behind the traced decorator (debug logger on / off). Three default-limiter cases in four go through a wrapper (queue FIFO/LIFO, deprecated constructors, blocking, deadline) whose listeners forward the outcome. Concurrent windowed variant: while a slow (yielding) delegate is handed window 1 another goroutine reports samples incl. a drop; exactly one delivered window carries the drop flag. A recording core.Limit receives what the limiter/windowed limit delivers; a reference fold of the qualifying completions since the last "
                   "delivery runs beside it. Separate sub-oracles: delivered values differ from fold (min RTT resp. mean RTT, max in-flight, drop flag iff any "
                   "drop in the window), delivery of an unready window, delivery before the previous window's period elapsed, ready window not "
                   "delivered at a qualifying completion, delivery triggered by an ignored / below-threshold completion. A third variant completes 2-3 "
                   "tokens at the same virtual instant from different goroutines (yield at the verif point before the update lock) and keeps the set of "
                   "candidate pending folds: a delivery must be candidate + non-empty subset of the simultaneous completions with more than windowSize "
                   "successes. Exploration over seeded histories.",
        require=["handoffs_at_the_timeout_instant/caller-granted", "windows_delivered_in_handoff_at_timeout_cases", "admission_inside_release_cases", "default_limiter_cases_with_the_algorithm_behind_a_traced_limit", "default_limiter_cases_through_a_wrapper", "windowed_concurrent_rounds", "default_completions", "default_windows_delivered", "default_nonqualifying_completions", "default_windows_with_drop_before_last_completion",
                 "windowed_samples", "windowed_windows_delivered", "windowed_samples_below_threshold", "windowed_windows_with_drop_before_last_sample",
                 "windowed_drop_only_windows_delivered", "simultaneous_rounds", "simultaneous_windows_delivered", "simultaneous_rounds_at_the_readiness_boundary"],
        rule="default: 150-650 acquire/sleep/complete steps with 1-6 holders, outcomes success/ignore/dropped, durations 1ns-8ms, windowSize 10-30, "
             "min/max window 1us-8s, threshold 0-1ms; windowed: 100-600 samples with explicit start/rtt/in-flight/drop; non-trivial = at least two windows "
             "delivered; distinct = distinct (config, length, deliveries).",
        assumptions=COMMON_ASSUME + ["windowed limit readiness = closing sample's in-flight > windowSize (the rule the existing suite pins); a drop-only window's period may be anything in [minWindow,maxWindow]",
                                     "durations >= 1ns (DESIGN 8)"],
    ),
    "C10": dict(
        pkg="c10", race=False, shards=(8, 16), timeout_s=(600, 3600),
        technique="quiescence-invariant monitor in a synctest bubble under forced schedules (releases injected at schedule points via instrumented delegate, verif hooks and an actor goroutine)",
        level_text="Queue kinds without any backlog time-out; half of the real-time stress runs have two readers hammering the delegate's EstimatedLimit() / String(). Point cancel-right-after-the-handoff (eviction on): the next-in-line caller's context ends when the token has just been put into its hands. Further points: the second holder completes while the first hand-off is inside the simple strategy (verif point); eviction off, the cancelled next-in-line stays queued, a release whose hand-off the delegate refuses (GateLimiter.RefuseNext), a newcomer takes and completes the unit - the cancelled caller is still served in its turn. Further points: the woken winner's context ends at its wake-up while the losers go back to sleep (blocking / deadline); a release after one more caller was turned away at a backlog that holds exactly its maximum. Every delegate attempt must carry a caller's own context (a hand-off evaluated for another context is evaluated for another caller). Liveness restated as safety at quiescence: after every release, when all goroutines of the bubble are durably blocked and virtual time "
                   "has not moved, 'capacity free and a caller still blocked' is a violation. The release is injected at: before arrival, after the "
                   "caller's 1st/2nd failed delegate attempt, between backlog push and select (verif hooks), when asleep, at the failed retry of a woken "
                   "loser, while unblock hands to a waiter that is being cancelled / timing out at the same instant, and with the broadcast delayed after "
                   "the inner release, and with every holder completing at the same moment from its own goroutine over a slow (yielding) delegate - at every snapshot "
                   "a slot that is counted busy although nobody holds it while callers are blocked is a violation too; a second holder completing at the instant a release's hand-off attempt is refused by the delegate, a release through a delegate listener that is slow to give the unit back, and (blocking / deadline) a release while the caller's subscribe helper is about to take the condition's lock (verif point) - for blocking (timeout 0 / T), deadline and queue FIFO/LIFO x eviction on/off, capacity 1-2, 1-3 waiters, all "
                   "outcomes. One case in fifty is a real-time stress run (4-16 goroutines, zero hold, timeout 0 / 1h, 200 iterations each) whose "
                   "stuck state (no progress for two watchdog periods, capacity free, workers inside Acquire) is a violation. Exploration of forced interleavings, not all schedules.",
        require=["stress_runs_with_readers_on_the_delegate", "scenarios", "quiescent_snapshots", "scenarios_reaching_their_schedule_point", "snapshots_with_blocked_callers",
                 "reached/after-failed-attempt-1", "reached/queue.after_push", "reached/queue.before_push", "reached/loser-retry",
                 "reached/handoff-vs-cancel", "reached/handoff-vs-timeout", "reached/next-in-line-cancelled-but-not-evicted", "reached/asleep", "reached/parallel-releases", "reached/slow-inner-release", "reached/helper-before-lock", "reached/winner-cancelled-at-wakeup", "reached/release-after-a-rejection-at-the-full-backlog", "reached/second-release-inside-the-strategy", "reached/refused-handoff-with-a-cancelled-head", "reached/cancel-right-after-the-handoff", "stress_runs", "stress_grants"],
        rule="scenario grid = limiter kind (7) x release point (12-16) x capacity {1,2} x waiters {1,2,3} x outcome (3); quick runs the grid 3 times, thorough 1500 "
             "times with PRNG pause budgets / strategy kind / targeted waiter; non-trivial = schedule point reached and some waiter granted; distinct = distinct scenario tuples.",
        assumptions=COMMON_ASSUME + ["sync.Cond.Wait, channel ops and select are durably blocking in a bubble, sync.Mutex is not (a caller waiting for a mutex counts as running)",
                                     "pauses at schedule points are bounded yields, never waits: they cannot deadlock an implementation that holds a lock across the window"],
    ),
    "C11": dict(
        pkg="c11", race=False, shards=(4, 16), timeout_s=(600, 3000),
        technique="grant-order monitor in a synctest bubble: arrival order fixed by quiescence between arrivals, observed grant vs FIFO/LIFO model of still-waiting callers",
        level_text="Default ordering without a backlog time-out among the constructors. Release while the limiter lock is busy (a third caller paused before its push): the completion, once returned, has offered its unit to the queue - a caller arriving afterwards cannot overtake. Evicting queues without any backlog time-out (MaxBacklogTimeout < 0). Arrivals with an already-done context (eviction on: turned away at once, never part of the line) and with a context deadline that passes while queued (eviction off: the caller keeps its place and is served). A release landing on an arriving caller (verif point before the push): the unit goes to the caller the order designates among the queued ones and the newcomer. Capacity 1 is held; waiters arrive one at a time with synctest.Wait() between arrivals (arrival order is a fact); PRNG interleaves "
                   "arrivals, cancellations (eviction on), staggered time-outs, releases and releases whose hand-off attempt the (injected) delegate "
                   "refuses; after each release exactly one waiter must be granted and it "
                   "must be the oldest (FIFO) / newest (LIFO) still waiting. Releases that coincide with a departure - the holder completes in the same breath as a "
                   "caller is cancelled (eviction on), or at the very virtual instant the oldest caller's backlog time-out fires - must still grant exactly one caller: "
                   "the next in order counting the departing caller or the next among those who stay. While a unit lies free at the delegate after a refused hand-off, a caller that is not next in order "
                   "and leaves (cancelled) must be refused, not take the unit. Two-holder rounds (capacity 2, three queued callers): the second holder completes at the instant the first release's "
                   "further hand-off attempt is refused (or right afterwards) - the two units must be held by the first two callers in order. Every constructor: FromConfig{fifo,lifo,default}, WithDefaults, the "
                   "deprecated Fifo/Lifo constructors (+WithDefaults), FixedPool and Pool with OrderingFIFO/LIFO (also with backlog sizes 0 / -1 = default). Exploration over seeded scenarios.",
        require=["releases_while_the_limiter_lock_was_busy", "constructor/FromConfig{fifo,evict,no-timeout}", "arrivals_with_a_done_context", "arrivals_whose_context_deadline_passes_while_queued", "releases_landing_on_an_arriving_caller", "two_holder_rounds", "two_holder_rounds_with_parallel_releases", "departures_while_a_unit_lies_free", "releases_coinciding_with_a_departure", "grants_checked", "grants_with_a_choice", "releases_with_refused_handoff", "scenarios/fifo", "scenarios/lifo", "constructor/WithDefaults",
                 "constructor/NewLifoBlockingLimiterWithDefaults", "constructor/FixedPool{OrderingLIFO}", "constructor/Pool{OrderingFIFO}"],
        rule="scenario = (constructor (20), 6-20 ops: arrival / cancel / time-out of the oldest / release); non-trivial = at least two grants; distinct = distinct (constructor, trace).",
        assumptions=COMMON_ASSUME + ["a caller whose time-out or cancellation coincides with a release may legitimately still be granted (it was queued when the hand-off happened)"],
    ),
    "C13": dict(
        pkg="c13", race=False, shards=(4, 16), timeout_s=(600, 3000),
        technique="exact-instant monitor on a synctest virtual clock: return instant of every blocked Acquire vs its bound, busy count after refusals",
        level_text="The time-out argument left to default (0 = one second) with and without eviction; ordered fixed pools (pool.NewFixedPool): a blocked caller is refused at exactly the pool's time-out whatever the window arguments. Cancellation of a caller that is not the longest-waiting one (2-3 blocked, nothing released); deadlines expressed in fixed zones east and west of UTC. Ordered pools built by pool.NewPool (explicit time-out; 0 / negative = the documented default of one second); cancellation immediately followed by the release (nothing in between), optionally with a second caller queued. After-a-cancelled-waiter scenarios: a second caller arriving after another caller was cancelled is refused at exactly its own bound; cancel-at-handoff scenarios (queue, eviction on): the call returns at the instant of release and cancellation. Real-time release-in-progress cases: a caller arriving while another caller's completion is in progress (slow delegate listener) is still bounded by its context / the deadline. For blocking (timeout 0/T), deadline and queue (FIFO/LIFO, eviction on/off) limiters with capacity exhausted and no release, the "
                   "blocked call must return refused at exactly its bound (backlog timeout, deadline, cancellation instant; cancellation ignored by the "
                   "queue limiter without eviction) - not earlier, not later - with cancellation placed before / at / after arrival and at / after the "
                   "bound, arrivals before / at / after / less than a millisecond (down to 1 ns) before the deadline; calls for which no bound applies must still be blocked; already-cancelled "
                   "contexts and passed deadlines are refused immediately even with capacity free and leave the busy count unchanged. Virtual time is "
                   "exact, so equality (now == deadline) is exercised. Contexts end by explicit cancel or by their own deadline. A two-waiter "
                   "variant (one release before every bound, the winner keeps the token) requires the loser to be refused at exactly its own bound. Queue limiters with "
                   "the backlog time-out disabled (negative) are bounded by the context only (eviction on) or not at all; deadline limiters with an 'effectively never' "
                   "deadline (beyond 2262, e.g. now+MaxInt64ns, 9999-12-31) must grant free capacity and keep a call blocked until its context ends or capacity is offered. "
                   "Exploration over a grid x PRNG durations.",
        require=["default_timeout_cases", "fixed_pool_bound_cases", "cancel_of_a_newer_waiter_scenarios", "ordered_pool_cases", "cancel_immediately_followed_by_release_scenarios", "after_cancelled_waiter_scenarios", "cancel_at_handoff_scenarios", "release_in_progress_cases", "scenarios", "exact_return_instants_checked", "refused_calls_hold_nothing_checks", "calls_correctly_still_blocked",
                 "calls_exactly_at_the_deadline", "family/queue", "family/deadline", "family/blocking", "contexts_ending_by_their_own_deadline", "two_waiter_scenarios", "slow_delegate_scenarios", "far_deadline_scenarios"],
        rule="grid = limiter kind (9) x cancel placement (6) x arrival placement (3, deadline only) x capacity exhausted/free, each with PRNG timeout "
             "(1ms-1h), arrival and cancel instants; quick 20 per cell, thorough 5000; all cases non-trivial; distinct = distinct (cell, instants).",
        assumptions=COMMON_ASSUME + ["a release at exactly the bound is not judged here (either verdict is legal; conservation is C02)"],
    ),
    "C12": dict(
        pkg="c12", race=False, shards=(4, 16), timeout_s=(600, 3000),
        technique="quiescence-invariant monitor in a synctest bubble: queue_size gauge (recording registry) = backlog length (verif accessor) = callers inside Acquire <= bound; zero-virtual-time refusal at a full backlog",
        level_text="The real-time stress recognises callers that are blocked inside Acquire without being in the backlog (no return for six seconds, picture confirmed three times) instead of waiting for them. The bound is also checked through the deprecated FIFO / LIFO constructors (explicit and default time-out) and a configuration decoded by encoding/json. Releases whose hand-off the delegate refuses (GateLimiter.RefuseNext), after which the caller the hand-off was for is cancelled / times out. A quarter of the scenarios run with the backlog time-out disabled (negative). Release ops that cancel the hand-off target while the delegate is being asked; pool cases (FixedPool / Pool x FIFO/LIFO): exactly the configured backlog bound of callers waits, further ones are refused at once, queue gauges agree. One single arrival in four comes with an already-done context. PRNG sequences of single arrivals, simultaneous bursts, releases (all outcomes), cancellations and time advances (across backlog "
                   "time-outs) on the queue limiter (FIFO/LIFO/default, eviction on/off, backlog 1-4, capacity 1-2), optionally with yields at the "
                   "check->push, push->select and hand-off windows. At every quiescent point the public queue_size gauge, the backlog length and the "
                   "number of callers whose Acquire has not returned must agree and stay within the bound; an arrival at a full backlog must be "
                   "refused at the instant it arrived; a cancelled caller (eviction on) must have left. Exploration.",
        require=["backlog_bound_cases/json-config", "backlog_bound_cases/fifo-constructor", "releases_whose_hand_off_the_delegate_refused", "pool_backlog_bound_cases", "arrivals_with_a_done_context", "scenarios", "quiescent_checks", "arrivals_at_full_backlog", "simultaneous_bursts", "give_ups_overlapping_a_release", "default_bound_cases", "return_instant_backlog_checks", "return_instant_stress_runs"],
        rule="scenario = (queue config, capacity, 8-32 ops: arrive / burst of 2-5 / release / cancel / sleep); non-trivial = more than 5 quiescent "
             "checks; distinct = distinct (config, op list).",
        assumptions=COMMON_ASSUME,
    ),
    "C19": dict(
        pkg="c19", race=False, shards=(6, 16), timeout_s=(600, 3000),
        technique="holder-bracket monitor + every-caller-granted-within-timeout monitor on a synctest virtual clock; real-time stress with stuck-state classification",
        level_text="Cancelled-at-the-grant cases: generic pools over an instrumented delegate; the parked caller's context is cancelled at the very moment the delegate grants the unit for it - afterwards the pool hands out its full limit. In half of the generic-pool stress runs two goroutines keep describing the pool's limiter (String); a stress run that stops progressing with goroutines waiting for a library mutex is reported as a deadlock. Generic random pools over a delegate whose listener is slow to give the unit back (point slow-inner-release; one release-at-point case in four is forced onto the instrumented-delegate points). Generic random pools are also hit right after the caller's first / second refused delegate attempt (instrumented delegate); after every stress run the pool must hand out its full limit again. One configuration in five has a backlog of 11-24 (larger than the smallest sample window). Two-releases / two-parked cases over the simple strategy: the second holder completes while the first hand-off is inside the strategy (verif point) - both parked callers are served. FixedPool and Pool x {random, FIFO, LIFO}, limit 1-4, callers = limit+1..limit+backlog with PRNG arrival instants (also all "
                   "simultaneous) and hold times (also zero), a quarter of the callers cancelling their context while possibly queued, time-out above the "
                   "longest possible wait (random pools: poll period 0 / 7 ms / long): a harness bracket counter (a lower bound of the true "
                   "holders) must never exceed the limit, every caller that did not cancel must be granted (queue pools: within the time-out of its arrival, exact "
                   "virtual time), and once every holder has released nobody may still be inside Acquire. Half of the generic pools hand their strategy a placeholder "
                   "number different from the limit (the limiter's limit governs). Overflow variant: limit + backlog + k simultaneous callers, at most k turned away, at once. Release-at-point cases: every unit held, one caller arrives and the holder completes at a verif point of the caller's way into the backlog (before / after the push; random pools: the subscribe helper) - the caller must be served by that release. After every scenario a second phase: "
                   "all units held again, one more caller must queue and be served by the next release. "
                   "A real-time stress tier (zero hold, 300 iterations per caller, time-out 1h) must finish without refusals; a run that stops progressing "
                   "with capacity free is classified as stuck (violation), anything else as inconclusive. Exploration.",
        require=["stress_full_limit_probes", "cancelled_at_the_grant_cases", "release_at_point_cases/slow-inner-release", "two_releases_two_parked_cases", "release_at_point_cases/queue.before_push", "release_at_point_cases/blocking.helper_before_lock", "second_phase_probes", "virtual_scenarios_with_more_callers_than_limit_plus_backlog", "virtual_scenarios", "virtual_callers_that_had_to_wait", "virtual_scenarios_reaching_the_limit", "virtual_callers_cancelling_while_queued", "virtual_scenarios_with_colliding_timeouts", "stress_runs", "stress_grants"],
        rule="virtual scenario = (pool kind, ordering, limit, backlog, callers, per-caller arrival/hold/outcome); stress = (same config, real time); "
             "non-trivial = at least one caller had to wait; distinct = distinct (config, first caller).",
        assumptions=COMMON_ASSUME + ["the bracket counter is incremented after Acquire returned and decremented before completion, so it never over-counts holders"],
    ),
    "C02": dict(
        pkg="c02", race=False, shards=(8, 16), timeout_s=(600, 3600),
        technique="conservation monitor: per-layer counts vs harness token ledger after every step / at every quiescent point (synctest), exactly-once accounting of delegate tokens, re-admission of the full limit",
        level_text="One acquire in four of the sequential cases carries an expired or cancelled context; simultaneous completions: every token of a full limiter (25 small stacks per case, and the partitioned strategies alone with 512 tokens given back by 16 goroutines in tight loops) - all counts return to zero. Removed partition objects are added again while tokens granted before the removal are outstanding (lookup and predicate): bins stay equal to the outstanding tokens charged to them. Last-completion cases: the only holder of a queue limiter completes while a newcomer is between re-check and push / push and select (verif points) - afterwards nothing is left behind. Half of the predicate stacks carry a catch-all partition registered last (overlapping predicates: only the first matching bin is charged). Sequential cases change the strategy's limit (also below what is outstanding) - nothing granted is written off. Shared-context cases: 2-4 callers queued with one and the same context value, the oldest times out, the holder completes - every caller is an individual. (A') 150 rounds per case in which one holder completes while another caller is being admitted (a user metric registry yields inside the strategy's sample emission): at rest strategy count and limiter gauge equal the tokens outstanding. (A) DefaultLimiter over Simple/Precise/Lookup/Predicate, sequential random acquire/complete with all outcomes: strategy busy, bin "
                   "busy and the limiter's in-flight gauge equal the harness's outstanding tokens after every step. (B) blocking / deadline / queue stacks in a "
                   "synctest bubble with arrivals, bursts, releases, cancellations, time advances across time-outs and releases placed at the very "
                   "instant of a bound, optional yields in the push/hand-off windows: at every quiescent point busy = gauge = outstanding delegate tokens = "
                   "granted - completed, listener!=nil iff ok, no delegate token completed twice; after teardown all zero, backlog empty, exactly the limit "
                   "re-admitted. (C) real-time stress (8-16 goroutines, random cancels, 1-3 ms time-outs) with the same end-state checks. (D) pools "
                   "behaviourally. Exploration.",
        require=["acquires_with_an_ended_context", "simultaneous_completion_rounds", "partition_readded_with_tokens_outstanding", "last_completion_at_push_cases", "limit_lowered_below_outstanding_tokens", "shared_context_cases", "gauge_at_rest_checks", "sequential_layer_checks", "completions/success", "completions/ignore", "completions/dropped", "bubble_scenarios/blocking",
                 "bubble_scenarios/deadline", "bubble_scenarios/queue", "quiescent_checks", "give_up_events_injected",
                 "releases_at_the_instant_of_a_bound", "bubble_scenarios_with_slow_delegate", "unknown_bin_conservation_probes", "partition_removed_with_tokens_outstanding", "stress_grants", "stress_refusals", "pool_cases"],
        rule="cases: sequential stack (40-120 ops), bubble scenario (8-32 ops on a PRNG limiter kind/capacity/time-out), pool churn, stress run; non-trivial = "
             "more than 5 quiescent checks (bubble) / grants and refusals both occurred (stress) / always (sequential, pool); distinct = distinct (config, op list).",
        assumptions=COMMON_ASSUME,
    ),
    "C05": dict(
        pkg="c05", race=False, shards=(4, 16), timeout_s=(600, 3000),
        technique="recording limit (scripted or wrapping a real algorithm) + equality monitor on the strategy's enforced limit and partition shares after construction and after every sample-driven update (synctest clock closes windows deterministically)",
        level_text="Limiters are built without a logger (nil), with the no-op and with a debug-enabled one; a predicate partition taken out, missing a change of the total and put back has the share of the total now in force. Decimal fractions (k/100): the share is the round-up of total x fraction evaluated on the float64 actually passed - the round-up of the float product or of the exact product (big.Rat), usually the same number. The pollers of the concurrent variant also call the partition objects' own accessors (Limit, BusyCount, IsLimitExceeded, String). One lookup stack in five has no named partition left (removed after construction): updates still reach the strategy. One case in four builds the strategy with the very number the algorithm starts from (also 0 / negative); one case in twenty goes through NewDefaultLimiterWithDefaults with a strategy built with another number. One case in six uses an algorithm whose estimate is changed from outside between windows (SettableLimit) - after the next completed window enforcement must follow. DefaultLimiter over Simple/Precise/Lookup/Predicate with a recording core.Limit whose estimate trajectory contains 0, negative, "
                   "repeated and large values (or a real AIMD/Vegas/Gradient2 underneath): right after construction and after every completion during which "
                   "the recorder received an OnSample, the strategy's limit must equal max(1, the estimate the recorder returned) and every partition "
                   "share max(1, ceil(limit x fraction)) of that same value; the lookup strategy's unknown bucket is probed behaviourally. A concurrent "
                   "variant (8 goroutines completing) checks the equality at quiescence. Exploration.",
        require=["limiters_built_without_a_logger", "shares_of_partitions_put_back_after_a_limit_change", "decimal_share_checks", "defaults_constructor_cases", "out_of_band_estimate_changes", "enforcement_checks", "share_checks", "updates_observed", "unknown_bucket_probes", "concurrent_scenarios", "add_vs_update_rounds_with_an_update",
                 "scenarios/simple", "scenarios/precise", "scenarios/lookup", "scenarios/predicate"],
        rule="scenario = (strategy kind with dyadic fractions, scripted trajectory or real algorithm, windowSize 10-13, 150-550 driver steps or 8x40 "
             "concurrent iterations); non-trivial = at least two updates observed; distinct = distinct (config, update count).",
        assumptions=COMMON_ASSUME + ["fractions are k/32 so shares are exact in integer arithmetic"],
    ),
    "C01": dict(
        pkg="c01", race=False, shards=(4, 16), timeout_s=(600, 3600), parallel=4,
        technique="porcupine linearizability check of recorded client-boundary histories against a counting gate (held, limit) + offline interval sweep (lower/upper bounds of simultaneous holders) over long histories + at-hook assertion in an injected strategy wrapper that every SetLimit is applied while the estimate it carries is still in force, with sequential probes at rest",
        level_text="Sequential gates whose limit does not come from a sample: the convenience constructor over a strategy built with a placeholder number (exactly the default estimate is granted before any window closed) and a SettableLimit moved by explicit sets (after the next window exactly the new value is granted). Half of the direct precise-strategy histories use a metric registry that yields inside the strategy's sample emission (calls pile up behind an admission in progress). M2 limiters are built with a minimum-RTT threshold of 0, 100us or 1s (sub-threshold completions give their unit back like any other). M1: 2-8 goroutines drive DefaultLimiter over Simple/Precise (scripted estimate trajectory incl. 0/negative/repeats, or AIMD/Gradient2 "
                   "underneath, window pre-filled so sample-driven SetLimit happens inside the history) and PreciseStrategy directly (with concurrent "
                   "SetLimit); call/return events on one logical clock, completions split into REL and SET at the recorded entry of the algorithm's "
                   "OnSample; porcupine decides whether some linearization is a legal run of an atomic counting gate (Illegal = violation with the history, "
                   "Unknown = inconclusive). M2: 2-16 goroutines x 20k-100k ops at a constant limit 1-3: holders lower bound (grant returned .. completion "
                   "called) must never exceed the limit and every refused call must overlap an instant where the upper bound (acquire called .. completion "
                   "returned) reached the limit. A verif yield inside the simple strategy's check-then-add is active in half of the runs. Exploration of "
                   "the interleavings a 16-core scheduler produces. M3: 4-12 goroutines close sample windows back to back (scripted trajectory or AIMD) over a strategy "
                   "wrapper that is slow inside SetLimit; at the instant each SetLimit(v) is applied the algorithm's estimate must still be v, and at rest after every "
                   "burst the enforced limit equals the estimate and a sequential probe is granted exactly that many times. In all modes the number handed to the "
                   "strategy's constructor is a placeholder (equal, 1, or larger): the limiter must seed the strategy with the algorithm's value.",
        require=["convenience_constructor_gates_checked", "explicit_set_gates_checked", "m1_histories", "m1_histories_linearizable", "m1_overlapping_operation_pairs", "m1_sample_driven_limit_updates", "m2_runs", "m2_refusals_checked", "m3_setlimit_applications_checked", "m3_probes_at_rest"],
        rule="M1 history = (target, algorithm, 2-8 goroutines x 2-10 pre-drawn ops); M2 run = (target, limit, goroutines, hold style); non-trivial = at least "
             "one overlapping operation pair (M1) / grants and refusals both occurred (M2); distinct = distinct (config, op count, overlaps).",
        assumptions=COMMON_ASSUME + ["porcupine v1.3.0; checker timeout 10 s = inconclusive", "logical timestamps come from one atomic counter incremented immediately before the call and immediately after the return"],
    ),
    "C17": dict(
        pkg="c17", race=True, shards=(8, 16), timeout_s=(900, 7200),
        technique="Go race detector (-race, halt_on_error=0, log to file) over API-level stress of every exported method; reports filtered to library frames and de-duplicated by access-site pair; runtime fatals (concurrent map access) caught from the child's output",
        level_text="The predicate strategy's bin accessors are asked for indices 0..4 while the third partition comes and goes (an index that is no longer valid is answered with the accessor's error). Constructors are hammered too: goroutines build queue limiters (all orderings), limits, strategies, default limiters and pools from ONE shared configuration value and ONE shared tag slice with spare capacity (scenario ctor.shared-config-and-tags). One stress scenario per type family (8 limits incl. wrappers, 4 strategies with their partitions and dynamic add/remove, default / "
                   "blocking / deadline / queue limiters and their listeners, pools, 7 measurement primitives, both metric registries with 200us polling, "
                   "independent Gradient / Gradient2 / Vegas instances side by side with limits on both sides of the pre-computed tables, strategies rebuilt "
                   "from partitions other goroutines are reading, and an integrated limiter+limit+registry): 4-16 goroutines call every exported method (accessors, String, SetLimit, NotifyOnChange, "
                   "Register*, Start/Stop, ...) of one shared instance in PRNG mixes under the race detector; each scenario is repeated (quick 10x, "
                   "thorough 2000x) because races are schedule dependent; verif yield points are on in half of the runs. A report counts only if a frame "
                   "lies in the library; each distinct pair of innermost library functions is one violation signature. Exploration: it shows absence of "
                   "races only on the interleavings and paths exercised (per-method call counts are in the evidence).",
        require=["scenario_runs/ctor.shared-config-and-tags", "scenario_runs/limit.Vegas", "scenario_runs/strategy.Predicate", "scenario_runs/limiter.Queue", "scenario_runs/registry.gometrics",
                 "scenario_runs/registry.datadog", "scenario_runs/registry.gometrics.running", "scenario_runs/registry.datadog.running",
                 "scenario_runs/measurements.WindowlessMovingPercentile", "scenario_runs/pool",
                 "calls/strategy.Predicate/Partition.String", "calls/registry.gometrics/RegisterDistribution+AddSample", "calls/limit.Settable/SetLimit"],
        rule="run = (scenario, 4-16 goroutines, 300-800 ops per goroutine, yield hooks on/off); every run is non-trivial; distinct = distinct (scenario, "
             "goroutines, iterations, hooks, repetition index).",
        assumptions=COMMON_ASSUME + ["LookupPartition/PredicatePartition Acquire/Release are documented as not to be used directly and are exercised only through the strategies",
                                     "the race detector reports only races that actually occur on the executed interleavings"],
    ),
}
